#!/bin/bash
# Must-fail corpus: every patch under selftest/mutants/ (and seeded/*/patch.diff)
# is applied to a scratch worktree of /repo; the check of the property named by
# the file's prefix must report a VIOLATION.  Usage: selftest/run.sh [pattern]
cd "$(dirname "$0")/.."
export GOFLAGS=-mod=mod GOPROXY=off GOSUMDB=off GOTOOLCHAIN=local
pat="${1:-}"
tmp=$(mktemp -d "${TMPDIR:-/tmp}/govc-selftest.XXXXXX")
trap 'git -C /repo worktree remove --force "$tmp/wt" >/dev/null 2>&1; rm -rf "$tmp"' EXIT
fail=0; n=0
for p in selftest/mutants/*.patch seeded/*/patch.diff; do
  [ -f "$p" ] || continue
  case "$p" in *"$pat"*) ;; *) continue;; esac
  if [[ "$p" == seeded/* ]]; then prop=$(python3 -c "import json,sys;print(json.load(open('$(dirname $p)/meta.json'))['property'])"); else prop=$(basename "$p" | cut -d- -f1); fi
  git -C /repo worktree remove --force "$tmp/wt" >/dev/null 2>&1
  git -C /repo worktree add --detach "$tmp/wt" HEAD >/dev/null 2>&1 || { echo "cannot create worktree"; exit 2; }
  # the working tree of /repo may carry uncommitted contract edits: copy them
  (cd /repo && git diff) | (cd "$tmp/wt" && git apply 2>/dev/null)
  (cd /repo && git ls-files --others --exclude-standard | grep '_verif.go$' | while read f; do mkdir -p "$tmp/wt/$(dirname $f)"; cp "$f" "$tmp/wt/$f"; done)
  if ! git -C "$tmp/wt" apply "$(pwd)/$p"; then echo "SKIP $p (does not apply)"; continue; fi
  n=$((n+1))
  out=$(bin/govc check -prop "$prop" -repo "$tmp/wt" -out "$tmp/out" 2>&1)
  if echo "$out" | grep "^VIOLATION property=$prop" | grep -qv "obligation=framework-integrity"; then
    conf=$(echo "$out" | grep '^VIOLATION' | grep -vc 'no-failing-input-found')
    echo "ok   $p -> $(echo "$out" | grep -c '^VIOLATION') violation(s), $conf replay-confirmed: $(echo "$out" | grep '^VIOLATION' | grep -v framework-integrity | head -1 | sed 's/.*obligation=//' | cut -c1-110)"
  else
    echo "MISS $p (no violation reported for $prop)"; fail=$((fail+1))
  fi
done
# Must-pass corpus: property-preserving edits under selftest/harmless/ must not
# raise an alarm.
fa=0; h=0
for p in selftest/harmless/*.patch; do
  [ -f "$p" ] || continue
  [ -n "$SKIP_HARMLESS" ] && continue
  case "$p" in *"$pat"*) ;; *) continue;; esac
  prop=$(basename "$p" | cut -d- -f1)
  git -C /repo worktree remove --force "$tmp/wt" >/dev/null 2>&1
  git -C /repo worktree add --detach "$tmp/wt" HEAD >/dev/null 2>&1 || { echo "cannot create worktree"; exit 2; }
  (cd /repo && git diff) | (cd "$tmp/wt" && git apply 2>/dev/null)
  (cd /repo && git ls-files --others --exclude-standard | grep '_verif.go$' | while read f; do mkdir -p "$tmp/wt/$(dirname $f)"; cp "$f" "$tmp/wt/$f"; done)
  if ! git -C "$tmp/wt" apply "$(pwd)/$p"; then echo "SKIP $p (does not apply)"; continue; fi
  h=$((h+1))
  out=$(bin/govc check -prop "$prop" -repo "$tmp/wt" -out "$tmp/out" 2>&1); rc=$?
  if [ $rc -ne 0 ] || echo "$out" | grep -q "^VIOLATION"; then
    echo "FALSE-ALARM $p: $(echo "$out" | grep '^VIOLATION' | head -1 | cut -c1-160)"; fa=$((fa+1))
  else
    echo "quiet $p"
  fi
done
echo "selftest: $n mutants, $fail missed; $h harmless edits, $fa false alarms"
[ $fail -eq 0 ] && [ $fa -eq 0 ]
