#!/bin/bash
# tools/mkmutant.sh <name> <file> <python-regex-from> <to> : creates selftest/mutants/<name>.patch (first occurrence), checks build+tests
set -e
export GOFLAGS=-mod=mod GOPROXY=off GOSUMDB=off GOTOOLCHAIN=local
name=$1; file=$2; from=$3; to=$4; occ=${5:-1}
wt=$(mktemp -d /tmp/mkmut.XXXXXX)
git -C /repo worktree add --detach "$wt/wt" HEAD -q
trap 'git -C /repo worktree remove --force "$wt/wt"; rm -rf "$wt"' EXIT
cd "$wt/wt"
python3 - "$file" "$from" "$to" "$occ" <<'PY'
import sys,re
f,fr,to,occ=sys.argv[1:5]; occ=int(occ)
s=open(f).read()
idx=-1
for k in range(occ):
    idx=s.index(fr, idx+1)
s=s[:idx]+to+s[idx+len(fr):]
open(f,'w').write(s)
PY
git diff > /verif/selftest/mutants/$name.patch
go build ./... && go test -vet=off -count=1 ./... > "$wt/t.log" 2>&1 && echo "mutant $name: builds, suite passes" || { echo "mutant $name: SUITE FAILS (kept anyway?)"; tail -3 "$wt/t.log"; }
