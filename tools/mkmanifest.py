#!/usr/bin/env python3
"""Regenerates /verif/MANIFEST.json from the table below."""
import json, os
HERE = os.path.dirname(os.path.dirname(os.path.abspath(__file__)))

# property id -> (level text, level note, technique, design ref)
T0="contract-based deductive verification: weakest-precondition style VCs over go/ssa of /repo, discharged by z3 4.8.12 / z3 5.1.0 / cvc5 1.0"
CLAIMED = {
 "C14": ("Deductive proof of a functional step contract of (*pfbReader).Read over a ghost input tape: every iteration of the decoder is one step of the PFB format (header 128/type/little-endian length with types 1..3 only, text bytes verbatim, binary bytes as two lower-case hexadecimal digits high nibble first, the odd digit kept in tail and delivered first by the next step), proved for every caller buffer length and every short-read pattern of the underlying reader (all are universally quantified symbols), with the in-place hex expansion invariant, the frame of the already delivered output, safety, and the byte counts.",
         "Partial: the steps are not composed into one closed formula for the whole output stream (the step relation is the specification); error results (short segment, end marker with fewer than six bytes) are covered by safety and the C13 clauses only. Trusted: io.Reader / io.ReadFull contracts, govc, go/ssa, solvers; fewer than 2^62 input bytes.",
         "contract-based deductive verification: weakest-precondition style VCs over go/ssa of /repo, discharged by z3 4.8.12 / z3 5.1.0 / cvc5 1.0",
         "DESIGN.md A.4 C14"),
}
CLAIMED["C01"] = ("Deductive proof of the implicit safety obligations (index/slice bounds, nil dereference, nil-map write, failed type assertion, division by zero, make size, explicit panic, callee preconditions) plus the representation invariants that carry them, on every function of the reader path that is under contract; termination (decreases) for the loops that carry a variant.",
  "Partial: see evidence.not_covered (functions not yet under contract, obligations listed as not claimed, termination of interpreter loops, stack exhaustion). Trusted: govc, go/ssa, solvers, stdlib contracts listed in the evidence.",
  "contract-based deductive verification: weakest-precondition style VCs over go/ssa of /repo, discharged by z3 4.8.12 / z3 5.1.0 / cvc5 1.0",
  "DESIGN.md §3 C01")
CLAIMED["C11"] = ("Deductive proof of contracts on executeOne (budget counting: stops at the first dispatch past the budget, success implies the counter is within the budget; execstackoverflow / stackoverflow cut-offs; execution depth restored), executeScanner (%! start check rejects before anything is executed and is not repeated), begin/end (dictionary stack limits) and array/string/dict (rangecheck / limitcheck / success clauses).",
  "Partial: 'never counting past N+1' on the error-handler path and the two-run equality 'same state as without budget' are not claimed (see evidence.not_covered); Go stack exhaustion is outside any contract. Trusted: govc, go/ssa, solvers.",
  "contract-based deductive verification: weakest-precondition style VCs over go/ssa of /repo, discharged by z3 4.8.12 / z3 5.1.0 / cvc5 1.0",
  "DESIGN.md §3 C11")
CLAIMED["C02"] = ("Deductive proof of functional contracts (success clause with the frame of the untouched operands and of the untouched elements of composite objects, error clauses with the PLRM error name) on 40 functions: the stack operators pop dup exch count index roll copy mark ] >> cleartomark, arithmetic add sub mul abs, boolean/bitwise and or not, comparison eq ne on integers, composite access length get getinterval put putinterval, creation array string dict, dictionary operators known def begin end where currentdict and the name lookup load, type, and the registries definefont findfont defineresource: integer overflow promoted to real, roll as rotation by the mathematical residue through the three copy calls, getinterval and copy returning a view of the same array (same reference), put/putinterval writing through to the shared backing store and leaving every other element unchanged, def writing the topmost dictionary only, load/where using the topmost dictionary that has the key, ] and >> taking exactly the operands above the topmost mark.",
  "Partial: eq/ne on reals, strings and names, cvx, exec, maxlength, matrix, findresource, readstring and the no-op access operators have safety and invariant contracts only; mul's overflow clause is claimed for the multiplicands -1, 0, 1; put/putinterval/copy clauses assume the target array is not the operand stack's own backing array (no heap-wide separation invariant); the contents of the dictionary built by >> are not specified; bitwise and/or are uninterpreted (the same Go operator on both sides); float arithmetic as real arithmetic (see evidence.not_covered). Trusted: govc, go/ssa, solvers.",
  "contract-based deductive verification: weakest-precondition style VCs over go/ssa of /repo, discharged by z3 4.8.12 / z3 5.1.0 / cvc5 1.0",
  "DESIGN.md A.4 C02")
CLAIMED["C03"] = ("Deductive proof of control-flow contracts: loop-exit conditions of for and repeat (a loop operator leaves its loop only when the PLRM termination test holds or the body signalled exit), exit never escapes a loop operator, executing a literal object pushes it, if/ifelse run the operand selected by the boolean (observable when the operands are literals), the tail element of a procedure is dispatched in deferred mode unless it was obtained by name lookup, if with a false condition executes nothing, Execute converts stray exit/stop.",
  "Partial: what a body does is abstract (executeOne is used through its contract); iteration counts, forall operands, bind, name-lookup order and ifelse branch selection are not yet under contract (see evidence.not_covered). Trusted: govc, go/ssa, solvers.",
  "contract-based deductive verification: weakest-precondition style VCs over go/ssa of /repo, discharged by z3 4.8.12 / z3 5.1.0 / cvc5 1.0",
  "DESIGN.md §3 C03")
CLAIMED["C07"] = ("Deductive proof of contracts on the CIDInit procedure set: each of the seven end* operators (code-space ranges, cid/bf/notdef single and range mappings) moves exactly the pending block (operands unchanged: same string references, same destinations, in order) to the end of its own table, leaves all earlier entries and all other tables unchanged, and changes no table on any error; a stored range has bounds of equal length with low <= high (bytewise) and a destination of the type its kind allows; begin* operators refuse negative counts and counts above 100 and store nothing then; usecmap records the name; the table comparators used by endcmap order by source code (code-space ranges by length first).",
  "Partial: that endcmap leaves the tables sorted rests on the trusted sort.Slice contract (only the comparators are verified); ReadCMap's choice of the returned dictionary is covered for determinism only (C17); dictionary entries such as CMapName/WMode are ordinary def operators (C02). bytes.Compare is an uninterpreted function of the bytes (see evidence). Trusted: govc, go/ssa, solvers.",
  "contract-based deductive verification: weakest-precondition style VCs over go/ssa of /repo, discharged by z3 4.8.12 / z3 5.1.0 / cvc5 1.0",
  "DESIGN.md A.4 C07")
CLAIMED["C20"] = ("Deductive proof, for all 2^32 integers, that appendInt writes the Type 1 number format of the proper range (one byte for -107..107, two bytes for +-108..1131, five bytes otherwise) and that the bytes decode to the same integer under the Type 1 book's number formats (ghost decoder specT1Int); proof that the real charstring decoder's number branches implement the same formats (per-iteration step clause of the decoding loop: pushes float64(specT1Int(code)) and advances by its length, rest of the stack unchanged).",
  "Partial: the fraction clauses (p/q within 1/214, no drift along a path) are not yet under contract (see evidence.not_covered); float64 arithmetic on the small integers involved is treated as exact real arithmetic. Trusted: govc, go/ssa, solvers.",
  T0, "DESIGN.md §3 C20")
T = T0
CLAIMED["C05"] = ("Deductive proof of the eexec cipher step of the scanner against the Adobe algorithm (plain = cipher xor (r>>8); r = (cipher + r)*52845 + 22719), of the mode discipline (nested eexec refused, mode only set on success, read errors keep the mode), of closefile (pops the file object, signals end of section) and of the eexec operator's operand check and dictionary-stack restoration on success.",
  "Partial: transparency of whole programs is the modular consequence of these contracts, not a replayed equality; hex de-armouring of readByteEexec and readstring byte-exactness are not yet under functional contract. Trusted: govc, go/ssa, solvers.", T, "DESIGN.md §3 C05")
CLAIMED["C06"] = ("Deductive proof that charstring decryption computes, for every lenIV n with 0 <= n <= len, plain[k] = cipher[n+k] xor (R_{n+k} >> 8) with R_0 = 4330 and the Type 1 recurrence (recursive specification function specCSR, SMT define-fun-rec), returns nil for n outside the range; plus the number formats of the charstring decoder (shared with C20).",
  "Partial: path/hint/flex/seac command semantics of the decoder and the extraction of dictionaries by type1.Read are not under functional contract (see evidence.not_covered). Trusted: govc, go/ssa, solvers; recursive spec functions assumed terminating.", T, "DESIGN.md §3 C06")
CLAIMED["C08"] = ("Deductive proof of the writer's format-defining pieces: charstring obfuscation is the Type 1 encryption (key 4330, recurrence on the cipher byte) of iv ++ plain; the eexec stream writer encrypts each buffered byte by the same step and keeps its state; hex and eexec writers count what they accept; counting writer adds exactly n; number and operator encodings (shared with C20).",
  "Partial: the template text, PFB framing and the lead-byte search are not under functional contract; the StandardEncoding shortcut condition is (after the fix recorded in known_findings.json) (see evidence.not_covered). Trusted: govc, go/ssa, solvers.", T, "DESIGN.md §3 C08")
CLAIMED["C10"] = ("Deductive proof of the implicit safety obligations (no panic) on every function of the Type 1 and AFM writers under the writable-domain invariant (fontWF, glyph commands well-formed, kerning pairs non-nil), and proof that type1.Read establishes that invariant for every font it returns.",
  "Partial: 'writing succeeds without error' and the re-read equalities go through text/template and the interpreter and are not expressible (see evidence.not_covered); names made of non-regular characters are outside the proved domain. Trusted: govc, go/ssa, solvers, text/template.", T, "DESIGN.md §3 C10")
CLAIMED["C13"] = ("Deductive proof with ghost state: (readers) the scanner's first read error is sticky and every short read surfaces as a non-nil error through refill, readByteRaw, readByte, PeekN; (writers) ghost flag wfault ('some write to an underlying io.Writer failed'): every writer function - hex, eexec, counting writers, Font.Write in all formats, Font.WritePDF, afm Metrics.Write - returns a non-nil error whenever a write failed during the call.",
  "Partial: truncation-never-yields-partial-result and the upper reader layers (ScanToken, Execute, type1.Read, afm.Read) are not yet under this contract (see evidence.not_covered). Trusted: io.Writer/io.Reader interface contracts, fmt.Fprintf and text/template report write errors.", T, "DESIGN.md §3 C13")

CLAIMED["C12"] = ("Deductive proof, over a ghost input tape (the sequence of all bytes the underlying reader delivers, in portions of arbitrary size: the io.Reader contract leaves every n in 0..len(p) free, so every delivery schedule is covered by the universally quantified n), that the scanner's byte layer hands out exactly tape(c), tape(c+1), ... in clear-text mode: refill appends exactly the next tape bytes and is only called on an empty buffer; readByteRaw/readByte/Next return tape(cursor) and advance the cursor by one, Peek returns it without moving; the bytes in memory are always tape[cursor, tpos); data delivered together with an error is handed out before the error.",
  "Partial: the token layer above the byte layer is covered only through the per-token contracts of C04; eexec mode, the split-Execute equivalence, the seekable/non-seekable branch of type1.Read and afm.Read (bufio.Scanner) are not under contract; fewer than 2^62 input bytes (see evidence.not_covered). Trusted: io.Reader interface contract, govc, go/ssa, solvers.", T, "DESIGN.md A.4 C12")
CLAIMED["C18"] = ("Deductive proof of (a) isolation: every composite object reachable from a new interpreter (system, user, error, internal, font, CMap and resource dictionaries, the dictionary stack, the StandardEncoding array, the ProcSet dictionary and its CIDInit procedure set) is allocated during NewInterpreter/makeSystemDict (fresh(x): its reference is newer than the allocation counter at entry), hence shared with no earlier instance and with no package-level variable; (b) the lock discipline of the lazily built glyph-name tables: every access to a field of glyphMap happens with its mutex held (obligation kind locked), Unlock is only reached with the mutex held, the internal builder getFile is only called with the mutex held.",
  "Partial: the data-race half is proved as a discipline (fields touched only under the lock), not as a statement about interleavings; immutability of the published name map read without the lock, a module-wide scan that no other package-level variable is written after init, and 'same results as sequential use' are not under contract (see evidence.not_covered). sync.Mutex is one ghost flag per function. Trusted: maps.Clone returns a fresh map; govc, go/ssa, solvers.", T, "DESIGN.md A.4 C18")
CLAIMED["C19"] = ("Deductive proof of the derived-metrics contracts: NumGlyphs counts the glyph map plus .notdef when missing (Type 1 and AFM); GlyphList has that length; the Type 1 bounding box is empty exactly when no glyph has a point, and otherwise contains every control point of every glyph (loop invariants over all glyphs and commands) and touches a point on each side; GlyphWidthPDF returns the stored width scaled by 1000*FontMatrix[0] (Type 1) or the AFM width, 0 for unknown names.",
  "Partial: GlyphList order (.notdef first, encoding order, then alphabetical) and BuiltinEncoding are not under functional contract; float arithmetic is treated as real arithmetic (see evidence.not_covered). Trusted: sort.Slice, govc, go/ssa, solvers.", T, "DESIGN.md §3 C19")
CLAIMED["C17"] = ("Deductive proof of order independence for every loop over a Go map (and over a not yet sorted maps.Keys result) in the anchored files: for two arbitrary distinct entries, running the loop body for one then the other from any state satisfying the loop invariants gives the same heap and locals as the opposite order, and no iteration leaves the loop (obligation kind maporder; adjacent transpositions generate all orders); every maps.Keys result is sorted before any order-sensitive use (kind keys-sorted); type1.Read's choice of the font dictionary is order independent because exactly one font is present (invariant len(FontDirectory) == 1).",
  "Partial: encodeCharstrings' loop (inner loops in the body) is not claimed - only its own-key frame is proved; text/template's sorted map output, sort.Slice/slices.Sort and wall-clock/address independence are trusted or outside contracts; cross-process equality follows from the same obligations since no hash seed is modelled (arbitrary order). Trusted: govc, go/ssa, solvers.", T, "DESIGN.md §3 C17")
CLAIMED["C04"] = ("Deductive proof of lexical step contracts over a view of the bytes in memory (peeked bytes followed by the unread buffer): Next/Peek/SkipByte consume or keep exactly the front of the view in clear-text mode; ReadString obeys PLRM 3.2.2 byte by byte for all byte values (nesting parentheses, the eight named escapes, backslash-newline, one to three octal digits with overflow dropped, unknown escapes taken literally, CR and CR LF read as LF); ReadHexString skips white space, pairs digits of either case high nibble first and rejects other bytes; isRegular is exactly the complement of white space/control bytes and the ten delimiters.",
  "Partial: the clauses hold while at least four bytes are in memory (what happens at a refill boundary is the C12 refill contract, not composed); ScanToken dispatch, numbers (strconv/regexp), names, ASCII85, comments/DSC and the String.PS/Name.PS round trips are not under contract (see evidence.not_covered). Trusted: govc, go/ssa, solvers.", T, "DESIGN.md §3 C04")
CLAIMED["C16"] = ("Deductive proof of the algorithmic clauses of the glyph-name code: IsValid is exactly the AGLFN name syntax (.notdef, or 1..31 characters from A-Za-z0-9._ not starting with a digit or period) for every string, including non-ASCII input; in ToUnicode the uni form accepts exactly groups of four upper-case hexadecimal digits whose value lies outside D800..DFFF and yields exactly those code points in order, rejecting on the first other byte or surrogate group; the u form computes the value of its four to six upper-case hexadecimal digits.",
  "Partial: the contents of the glyph list / AGLFN / Zapf Dingbats tables are data, not code (an enumeration, not a deduction); the decision order dingbats-glyphlist-uni-u, the suffix and underscore splitting (strings package), the final range test of the u form, FromUnicode and the round trip are not under contract (see evidence.not_covered). Range over a string is modelled by its ASCII behaviour (other positions yield some rune >= 128). Trusted: govc, go/ssa, solvers.", T, "DESIGN.md §3 C16")
NA = {
 "C09": "whole-pipeline equality (write through text/template and fmt, read back through the tokenizer, ~60 operators and the charstring decoder) cannot be stated as a contract over one call: no contract within reach carries a Font value through text/template output and back through the interpreter. The component contracts it rests on are proved under C05, C06, C08, C10, C20 (DESIGN.md §4).",
 "C15": "AFM write/read cycle equality runs through fmt.Fprintf, bufio.Scanner, strings.Fields and strconv in both directions; these stdlib functions are opaque to the verifier (no string theory), so no contract can express that the text written is the text parsed (DESIGN.md §4). The no-panic and error-propagation parts of the AFM reader/writer are proved under C01, C10, C13.",
}
ALL = ["C%02d" % i for i in range(1, 21)]
for p in ALL:
    if p not in CLAIMED and p not in NA:
        NA[p] = "not yet reached by the construction (work in progress; see DESIGN.md §6.3)"

checks = []
for p in sorted(CLAIMED):
    text, note, tech, ref = CLAIMED[p]
    checks.append({
        "property_id": p,
        "quick_cmd": "./check %s --tier quick" % p,
        "thorough_cmd": "./check %s --tier thorough" % p,
        "evidence_file": "/verif/evidence/%s.json" % p,
        "replay_cmd_template": "./check %s --replay {path}" % p,
        "engine": "govc",
        "level_claimed": {"category": "proof", "text": text, "design_ref": ref},
        "level_note": note,
        "technique": tech,
    })
m = {
 "version": 1,
 "setup_cmd": "cd govc && GOFLAGS=-mod=mod GOPROXY=off GOSUMDB=off GOTOOLCHAIN=local go build -o ../bin/govc .",
 "hooks": {
   "guard": "verif",
   "enable": "go build -tags verif ./... (contracts_verif.go files; read by govc via go/packages with -tags=verif)",
   "baseline_off_cmd": "cd /repo && go test -vet=off -count=1 ./...",
   "source_commits": [],
   "add_only": True,
 },
 "engines": [{"name": "govc", "path": "/verif/govc", "serves_properties": sorted(CLAIMED),
              "kind_free_text": "contract-based deductive verifier for Go written for this task: VC generation over go/ssa (naive form) of the working tree, contracts in //@ blocks of contracts_verif.go files, obligations discharged by z3/cvc5"}],
 "checks": checks,
 "not_applicable": [{"property_id": p, "reason": NA[p]} for p in sorted(NA)],
 "notes": "See DESIGN.md. Contracts live in /repo/**/contracts_verif.go behind build tag verif.",
}
try:
    import subprocess
    out = subprocess.run(["git", "-C", "/repo", "log", "--format=%H %s"], capture_output=True, text=True).stdout
    m["hooks"]["source_commits"] = [l.split()[0] for l in out.splitlines() if " verif:" in l or l.split(" ",1)[1].startswith("verif")]
except Exception:
    pass
json.dump(m, open(os.path.join(HERE, "MANIFEST.json"), "w"), indent=1)
print("wrote MANIFEST.json: claimed", sorted(CLAIMED), "n/a", len(NA))
