#!/bin/bash
# tools/confirm_seed.sh <name> <prop> <patch> <demo_test.go> <pkgdir> : confirms a seeded change in a scratch worktree
# (suite passes with the change, demo fails with it, demo passes without it), then stores it under /verif/seeded/<name>/.
set -u
export GOFLAGS=-mod=mod GOPROXY=off GOSUMDB=off GOTOOLCHAIN=local
name=$1; prop=$2; patch=$3; demo=$4; pkgdir=$5
wt=$(mktemp -d /tmp/confirm.XXXXXX)
git -C /repo worktree add --detach "$wt/wt" HEAD -q || exit 2
trap 'git -C /repo worktree remove --force "$wt/wt"; rm -rf "$wt"' EXIT
cd "$wt/wt"
cp "$demo" "$pkgdir/zz_seed_demo_test.go"
go test -vet=off -count=1 -timeout 120s "./$pkgdir" -run 'Seed' > "$wt/demo_without.log" 2>&1; r_without=$?
git apply "$patch" || { echo "patch does not apply"; exit 2; }
go test -vet=off -count=1 -timeout 120s "./$pkgdir" -run 'Seed' > "$wt/demo_with.log" 2>&1; r_with=$?
rm "$pkgdir/zz_seed_demo_test.go"
go build ./... > "$wt/build.log" 2>&1; r_build=$?
go test -vet=off -count=1 -timeout 300s ./... > "$wt/suite_with.log" 2>&1; r_suite=$?
echo "$name: build=$r_build suite_with_change=$r_suite demo_with_change=$r_with (want !=0) demo_without_change=$r_without (want 0)"
if [ $r_build -eq 0 ] && [ $r_suite -eq 0 ] && [ $r_with -ne 0 ] && [ $r_without -eq 0 ]; then
  mkdir -p /verif/seeded/$name
  cp "$patch" /verif/seeded/$name/patch.diff
  cp "$demo" /verif/seeded/$name/demo_test.go
  echo "CONFIRMED $name"
else
  tail -5 "$wt/demo_with.log" "$wt/demo_without.log" "$wt/suite_with.log"
fi
