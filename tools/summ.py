#!/usr/bin/env python3
import json,sys,collections
e=json.load(open('/verif/evidence/%s.json'%sys.argv[1]))
c=e['coverage']
per=collections.defaultdict(lambda:[0,0])
for o in c['obligation_results']:
    per[o['func']][0]+=1
    if o['result']!='unsat': per[o['func']][1]+=1
tot=sum(v[0] for v in per.values()); bad=sum(v[1] for v in per.values())
print('functions',len(per),'obligations',tot,'failed',bad, 'wall', e['wall_s'])
for f,(t,b) in sorted(per.items()):
    if b or '-a' in sys.argv: print('%-60s %4d %4d'%(f,t,b))
print('ENGINE ERRORS:')
for x in (c["engine_errors"] or []): print("  ",x[:160])
if '-f' in sys.argv:
    for o in c['obligation_results']:
        if o['result']!='unsat': print(o['result'],o['name'])
