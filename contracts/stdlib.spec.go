// Trusted contracts for functions outside the module (assumed, never proved).
// Parsed by govc for its //@ blocks only; this file is not compiled.
package contracts

//@ func (*regexp.Regexp).FindSubmatch
//@ note trusted: FindSubmatch returns nil or one slice per group plus one; the only regexp of the module (radixNumberRe) has two groups
//@ ensures result == nil || len(result) == 3

//@ func slices.Grow
//@ note trusted: slices.Grow(s, n) panics for n < 0; otherwise returns a slice with the same length and elements and cap >= len+n
//@ requires n >= 0
//@ ensures len(result) == len(s) && cap(result) >= len(s) + n && (ref(result) == ref(s) || fresh(result))

//@ func maps.Clone
//@ note trusted: maps.Clone returns a fresh map (nil for nil)
//@ ensures (ref(m) == 0 ==> ref(result) == 0) && (ref(m) != 0 ==> fresh(result))

//@ func strings.Split
//@ note trusted: strings.Split with a non-empty separator returns at least one element
//@ ensures len(result) >= 1
