package main

// Package-level variables that are written exactly once, by their package
// initialiser, with a simple value ("effectively constant globals"): their
// value is known at every load.  The single-store condition is re-checked on
// the current tree at every run, so assigning to such a variable anywhere
// else makes its value unknown again.

import (
	"fmt"
	"os"
	"strings"
	"go/types"

	"golang.org/x/tools/go/ssa"
)

type constGlobalInfo struct {
	val   ssa.Value // the stored value (in the init function)
	uniq  int       // unique identity for opaque values (errors.New, &T{...})
	isErr bool
	isObj bool
	call  *ssa.Call // initialised by a call of a module function under contract
}

func (p *Program) analyseGlobals() {
	p.constGlobals = map[*ssa.Global]*constGlobalInfo{}
	stores := map[*ssa.Global][]*ssa.Store{}
	inInit := map[*ssa.Store]bool{}
	addrTaken := map[*ssa.Global]bool{}
	for fn := range p.allFuncs {
		for _, b := range fn.Blocks {
			for _, in := range b.Instrs {
				if st, ok := in.(*ssa.Store); ok {
					if g, ok := st.Addr.(*ssa.Global); ok {
						stores[g] = append(stores[g], st)
						if fn.Name() == "init" && fn.Parent() == nil {
							inInit[st] = true
						}
					}
				}
				// address escaping otherwise (passed to a call, stored): value unknown
				if _, isDbg := in.(*ssa.DebugRef); isDbg {
					continue
				}
				var ops []*ssa.Value
				ops = in.Operands(ops)
				for _, op := range ops {
					if op == nil || *op == nil {
						continue
					}
					if g, ok := (*op).(*ssa.Global); ok {
						switch u := in.(type) {
						case *ssa.Store:
							if u.Addr == g && u.Val != g {
								continue
							}
						case *ssa.UnOp:
							continue // load
						case *ssa.FieldAddr, *ssa.IndexAddr:
							// element writes through the global (arrays/structs): treat as unknown
						}
						addrTaken[g] = true
					}
				}
			}
		}
	}
	uniq := 0
	if os.Getenv("GOVC_DEBUG") != "" {
		for g, ss := range stores {
			if g.Name() == "theMark" {
				fmt.Printf("theMark: stores=%d inInit=%v addrTaken=%v val=%T %v\n", len(ss), inInit[ss[0]], addrTaken[g], ss[0].Val, ss[0].Val)
			}
		}
	}
	for g, ss := range stores {
		if len(ss) != 1 || !inInit[ss[0]] || addrTaken[g] {
			continue
		}
		v := ss[0].Val
		info := &constGlobalInfo{val: v}
		switch {
		case simpleValue(v):
		case isErrorCtor(v):
			uniq++
			info.uniq = uniq
			info.isErr = true
		case moduleCall(p, v) != nil:
			info.call = moduleCall(p, v)
		default:
			// pointer to a fresh object allocated in init
			_, isMap := v.(*ssa.MakeMap)
			if a, ok := v.(*ssa.Alloc); (ok && a.Heap) || isMap {
				uniq++
				info.uniq = uniq
				info.isObj = true
			} else {
				continue
			}
		}
		p.constGlobals[g] = info
	}
}

// moduleCall: v is the result of calling a function of the module whose
// arguments are simple values.
func moduleCall(p *Program, v ssa.Value) *ssa.Call {
	c, ok := v.(*ssa.Call)
	if !ok {
		return nil
	}
	f, ok := c.Call.Value.(*ssa.Function)
	if !ok || f.Pkg == nil || !p.inModule(f.Pkg.Pkg.Path()) {
		return nil
	}
	for _, a := range c.Call.Args {
		if !simpleValue(a) {
			return nil
		}
	}
	return c
}

func simpleValue(v ssa.Value) bool {
	switch v := v.(type) {
	case *ssa.Const:
		return true
	case *ssa.Function:
		return true
	case *ssa.ChangeType:
		return simpleValue(v.X)
	case *ssa.Convert:
		return simpleValue(v.X)
	case *ssa.MakeInterface:
		return simpleValue(v.X)
	case *ssa.UnOp:
		return zeroAllocLoad(v)
	}
	return false
}

// zeroAllocLoad: a load from a local that is never stored to (an empty
// composite literal such as mark{}).
func zeroAllocLoad(u *ssa.UnOp) bool {
	a, ok := u.X.(*ssa.Alloc)
	if !ok || a.Referrers() == nil {
		return false
	}
	for _, r := range *a.Referrers() {
		switch r := r.(type) {
		case *ssa.UnOp, *ssa.DebugRef:
			_ = r
		default:
			return false
		}
	}
	return true
}

func isErrorCtor(v ssa.Value) bool {
	c, ok := v.(*ssa.Call)
	if !ok {
		if mi, ok := v.(*ssa.MakeInterface); ok {
			return isErrorCtor(mi.X)
		}
		return false
	}
	if f, ok := c.Call.Value.(*ssa.Function); ok {
		k := extKey(f)
		return k == "errors.New" || k == "fmt.Errorf"
	}
	return false
}

// constGlobalVal evaluates the known value of an effectively constant global.
func (x *Exec) constGlobalVal(g *ssa.Global) (Val, bool) {
	info, ok := x.p.constGlobals[g]
	if !ok {
		return Val{}, false
	}
	elem := g.Type().(*types.Pointer).Elem()
	c := x.c
	if info.isErr {
		c.note("package-level error values created by errors.New/fmt.Errorf are distinct non-nil values")
		return Val{T: elem, S: sx("I_other", fmt.Sprint(typeID(types.Typ[types.UnsafePointer])), fmt.Sprint(info.uniq))}, true
	}
	if info.isObj {
		name := fmt.Sprintf("gobj_%d", info.uniq)
		if !c.funDecls["const:"+name] {
			c.funDecls["const:"+name] = true
			c.declare(name, "Int")
			// distinct, non-nil, allocated before the function started
			c.addAssert(and(sx("<", "0", name), sx("<=", name, c.regionInit("$alloc", 0))), -1)
			for k := range c.funDecls {
				if len(k) > 11 && k[:11] == "const:gobj_" && k[6:] != name {
					c.addAssert(not(eq(k[6:], name)), -1)
				}
			}
		}
		// fields set by the composite literal, when that field is never assigned anywhere else
		if a, ok := info.val.(*ssa.Alloc); ok && !c.funDecls["fields:"+name] {
			c.funDecls["fields:"+name] = true
			st := a.Type().(*types.Pointer).Elem()
			if _, isStruct := st.Underlying().(*types.Struct); isStruct && a.Referrers() != nil {
				for _, r := range *a.Referrers() {
					fa, ok := r.(*ssa.FieldAddr)
					if !ok || fa.Referrers() == nil || !x.p.fieldOnlySetInInit(st, fa.Field) {
						continue
					}
					for _, fr := range *fa.Referrers() {
						if sto, ok := fr.(*ssa.Store); ok && sto.Addr == ssa.Value(fa) {
							if fv, ok := x.evalSimple(sto.Val); ok {
								reg, _ := c.fieldRegion(st, fa.Field)
								c.addAssert(eq(sx("select", c.regionInit(reg, 0), name), fv.S), -1)
							}
						}
					}
				}
			}
		}
		return Val{T: elem, S: name}, true
	}
	if info.call != nil {
		callee := info.call.Call.Value.(*ssa.Function)
		fc := x.p.contracts[x.p.funcKey(callee)]
		if fc == nil || callee.Signature.Results().Len() != 1 {
			return Val{}, false
		}
		name := "gcall_" + san(g.Pkg.Pkg.Name()+"."+g.Name())
		val := Val{T: elem, S: name}
		if !c.funDecls["const:"+name] {
			c.funDecls["const:"+name] = true
			c.declare(name, c.sortOf(elem))
			a0 := c.regionInit("$alloc", 0)
			c.addAssert(c.wfAt(elem, name, a0), -1)
			vars := map[string]Val{}
			for i, pr := range callee.Params {
				if av, ok := x.evalSimple(info.call.Call.Args[i]); ok {
					vars[pr.Name()] = av
				}
			}
			bindResults(vars, callee.Signature, val)
			st0 := &State{guard: "true", cells: map[string]Val{}}
			env := &Env{x: x, c: c, st: st0, old: st0, vars: vars, oldVars: vars, fn: callee, pos: callee.Pos(), ghostOnly: true}
			for _, en := range fc.Ensures {
				if strings.Contains(en.Text, "old(") {
					continue
				}
				c.addAssert(x.evalClause(env, en), -1)
			}
			fc.Used = true
			c.note("package-level variable " + g.Name() + " is initialised once by " + x.p.funcKey(callee) + "(...) and satisfies its postcondition")
		}
		return val, true
	}
	v, ok := x.evalSimple(info.val)
	if !ok {
		return Val{}, false
	}
	v.T = elem
	return v, true
}

func (x *Exec) evalSimple(v ssa.Value) (Val, bool) {
	switch v := v.(type) {
	case *ssa.Const:
		return x.constant(v), true
	case *ssa.Function:
		return Val{T: v.Type(), S: fmt.Sprint(x.p.fnID(v)), Fn: &FnRef{Name: x.p.anyKey(v), Fn: v}}, true
	case *ssa.ChangeType:
		in, ok := x.evalSimple(v.X)
		if !ok {
			return Val{}, false
		}
		in.T = v.Type()
		return in, true
	case *ssa.Convert:
		in, ok := x.evalSimple(v.X)
		if !ok {
			return Val{}, false
		}
		if isString(v.X.Type()) && isString(v.Type()) {
			in.T = v.Type()
			return in, true
		}
		_, _, fi := intInfo(v.X.Type())
		_, _, ti := intInfo(v.Type())
		if (fi || isFloat(v.X.Type())) && (ti || isFloat(v.Type())) {
			return Val{T: v.Type(), S: x.c.convert(v.X.Type(), v.Type(), in.S)}, true
		}
		return Val{}, false
	case *ssa.MakeInterface:
		in, ok := x.evalSimple(v.X)
		if !ok {
			return Val{}, false
		}
		return x.makeIface(in, v.Type()), true
	case *ssa.UnOp:
		if zeroAllocLoad(v) {
			return Val{T: v.Type(), S: x.c.zero(v.Type())}, true
		}
	}
	return Val{}, false
}

func (p *Program) dumpGlobals() {
	for g, i := range p.constGlobals {
		fmt.Println("constglobal", g.Pkg.Pkg.Name(), g.Name(), i.isErr, i.isObj)
	}
}

// fieldOnlySetInInit: no function of the module other than a package
// initialiser stores to field i of struct type st.
func (p *Program) fieldOnlySetInInit(st types.Type, i int) bool {
	key := fmt.Sprintf("%s#%d", typeStr(st), i)
	if v, ok := p.fieldInitOnly[key]; ok {
		return v
	}
	res := true
	for _, fn := range p.funcList {
		if fn.Name() == "init" && fn.Parent() == nil {
			continue
		}
		for _, b := range fn.Blocks {
			for _, in := range b.Instrs {
				fa, ok := in.(*ssa.FieldAddr)
				if !ok || fa.Field != i || fa.Referrers() == nil {
					continue
				}
				pt, ok := fa.X.Type().Underlying().(*types.Pointer)
				if !ok || !types.Identical(pt.Elem(), st) {
					continue
				}
				for _, r := range *fa.Referrers() {
					if s, ok := r.(*ssa.Store); ok && s.Addr == ssa.Value(fa) {
						// a store into a freshly allocated object of the same type is harmless
						if al, ok := fa.X.(*ssa.Alloc); ok && al.Heap {
							continue
						}
						res = false
					}
				}
			}
		}
	}
	if p.fieldInitOnly == nil {
		p.fieldInitOnly = map[string]bool{}
	}
	p.fieldInitOnly[key] = res
	return res
}
