package main

// Symbolic state: local cells and heap regions, merging, havoc.

import (
	"fmt"
	"go/types"
	"sort"
	"strings"
)

type State struct {
	guard string
	cells map[string]Val // "L:<frame>:<name>" locals, region names, "$alloc"
	gen   int            // region generation (bumped by havoc-all)
}

func (s *State) clone() *State {
	n := &State{guard: s.guard, gen: s.gen, cells: make(map[string]Val, len(s.cells))}
	for k, v := range s.cells {
		n.cells[k] = v
	}
	return n
}

func isRegionKey(k string) bool {
	return !strings.HasPrefix(k, "L:")
}

// region returns the current value of a heap region in state s.
func (c *Ctx) region(s *State, name string) string {
	if v, ok := s.cells[name]; ok {
		return v.S
	}
	return c.regionInit(name, s.gen)
}

func (c *Ctx) regionInit(name string, gen int) string {
	sort_, ok := c.regions[name]
	if !ok {
		if name == "$alloc" {
			sort_ = "Int"
		} else if name == "$wfault" || name == "$rfault" {
			sort_ = "Bool"
		} else if name == "$tpos" {
			sort_ = "Int"
		} else if name == "$held" {
			sort_ = "Bool"
		} else if name == "$opos" {
			sort_ = "Int"
		} else if name == "$buflen" {
			sort_ = "(Array Int Int)"
		} else {
			panic(fmt.Sprintf("internal: unknown region %s", name))
		}
	}
	n := fmt.Sprintf("%s@%d", name, gen)
	if !c.funDecls["const:"+n] {
		c.funDecls["const:"+n] = true
		c.declare(n, sort_)
		if name == "$tpos" || name == "$opos" {
			c.addAssert(and(sx("<=", "0", n), sx("<=", n, tposMax)), -1)
		}
	}
	return n
}

func (c *Ctx) setRegion(s *State, name string, term string) {
	s.cells[name] = Val{S: c.def(strings.TrimLeft(name, "$")+"_", c.regionSort(name), term)}
}

func (c *Ctx) regionSort(name string) string {
	if name == "$alloc" {
		return "Int"
	}
	if name == "$wfault" || name == "$rfault" {
		return "Bool"
	}
	if name == "$tpos" {
		return "Int"
	}
	if name == "$held" {
		return "Bool"
	}
	if name == "$opos" {
		return "Int"
	}
	if name == "$buflen" {
		return "(Array Int Int)"
	}
	return c.regions[name]
}

func (c *Ctx) alloc(s *State) string { return c.region(s, "$alloc") }

// newRef allocates a fresh object reference.
func (c *Ctx) newRef(s *State) string {
	a := c.alloc(s)
	r := c.def("ref", "Int", sx("+", a, "1"))
	s.cells["$alloc"] = Val{S: r}
	return r
}

var genCounter int

// havocAll forgets every heap region (used for calls with unknown effects).
func (c *Ctx) havocAll(s *State) {
	old := c.alloc(s)
	ghost := c.region(s, "$wfault")
	tp := c.region(s, "$tpos")
	held := c.region(s, "$held")
	op := c.region(s, "$opos")
	rf := c.region(s, "$rfault")
	defer func() {
		// unknown code may have written output: the output cursor only moves forward
		n := c.freshSort("opos", "Int")
		c.assume(and(sx("<=", op, n), sx("<=", n, tposMax)))
		s.cells["$opos"] = Val{S: n}
		s.cells["$wfault"] = Val{S: ghost}
		s.cells["$held"] = Val{S: held} // code outside the package cannot touch the package's own mutex
		// unknown code may have read from the input: the tape cursor only moves forward
		c.havocTpos(s, tp)
		s.cells["$rfault"] = Val{S: rf}
		c.havocRfault(s)
		// unknown code may have written into any bytes.Buffer
		s.cells["$buflen"] = Val{S: c.freshSort("buflen", "(Array Int Int)")}
	}()
	for k := range s.cells {
		if isRegionKey(k) {
			delete(s.cells, k)
		}
	}
	genCounter++
	s.gen = genCounter
	na := c.alloc(s)
	c.assume(sx("<=", old, na))
}

// tposMax: fewer than 2^62 input bytes are ever delivered (stated assumption;
// keeps cursor arithmetic in contracts free of wrap-around).
const tposMax = "4611686018427387904"

// havocOpos: the ghost output cursor after code that may have written output.
func (c *Ctx) havocOpos(s *State) {
	old := c.region(s, "$opos")
	n := c.freshSort("opos", "Int")
	c.assume(and(sx("<=", "0", old), sx("<=", old, n), sx("<=", n, tposMax)))
	s.cells["$opos"] = Val{S: n}
}

// obsConst: the observed writer.  The ghost output tape (otape, opos) records
// exactly the bytes accepted by the one writer whose interface value equals
// this constant; it is arbitrary, so whatever is proved holds for every
// choice of the observed writer.
func (c *Ctx) obsConst() string {
	if !c.funDecls["const:gobs"] {
		c.funDecls["const:gobs"] = true
		c.declare("gobs", "Iface")
	}
	return "gobs"
}

// leafWriter: the dynamic type of the interface value is a standard-library
// writer that keeps what it is given and forwards it to no other writer.
func (c *Ctx) leafWriter(v string) string {
	var alts []string
	for _, t := range c.prog.ifaceTypes {
		switch ifaceCtorName(t) {
		case "I_Pbytes_Buffer", "I_Pstrings_Builder":
			alts = append(alts, fmt.Sprintf("((_ is %s) %s)", ifaceCtorName(t), v))
		}
	}
	if len(alts) == 0 {
		return "false"
	}
	return or(alts...)
}

// isBytesBuffer / bufRef: the interface value holds a *bytes.Buffer, and its reference.
func (c *Ctx) isBytesBuffer(v string) (string, string) {
	for _, t := range c.prog.ifaceTypes {
		if n := ifaceCtorName(t); n == "I_Pbytes_Buffer" {
			return fmt.Sprintf("((_ is %s) %s)", n, v), fmt.Sprintf("(pv_%s %s)", n[2:], v)
		}
	}
	return "false", "0"
}

// havocBuflen: the ghost lengths of all bytes.Buffers after code that may have written.
func (c *Ctx) havocBuflen(s *State) {
	s.cells["$buflen"] = Val{S: c.freshSort("buflen", "(Array Int Int)")}
}

// havocWfault: the ghost write-fault flag after code that may have written
// output (a module function or a loop body): a fault that has happened stays,
// a new one may have happened.
func (c *Ctx) havocWfault(s *State) {
	old := c.region(s, "$wfault")
	n := c.freshSort("wfault", "Bool")
	c.assume(implies(old, n))
	s.cells["$wfault"] = Val{S: n}
}

// havocRfault: the ghost read-fault flag after code that may have read input.
func (c *Ctx) havocRfault(s *State) {
	old := c.region(s, "$rfault")
	n := c.freshSort("rfault", "Bool")
	c.assume(implies(old, n))
	s.cells["$rfault"] = Val{S: n}
}

// havocTpos: the ghost input cursor after code that may have read input.
func (c *Ctx) havocTpos(s *State, old string) {
	n := c.freshSort("tpos", "Int")
	c.assume(and(sx("<=", "0", old), sx("<=", old, n), sx("<=", n, tposMax)))
	s.cells["$tpos"] = Val{S: n}
}

func (c *Ctx) havocRegion(s *State, name string) {
	if name == "$alloc" {
		old := c.alloc(s)
		n := c.freshSort("alloc", "Int")
		c.assume(sx("<=", old, n))
		s.cells["$alloc"] = Val{S: n}
		return
	}
	n := c.freshSort(name, c.regions[name])
	s.cells[name] = Val{S: n}
}

type edgeState struct {
	from int // predecessor block index (-1: none)
	st   *State
}

// merge joins several states (edge guards are the states' guards).
func (c *Ctx) merge(edges []edgeState) *State {
	if len(edges) == 1 {
		return edges[0].st.clone()
	}
	out := &State{cells: map[string]Val{}}
	var guards []string
	sameGen := true
	for _, e := range edges {
		guards = append(guards, e.st.guard)
		if e.st.gen != edges[0].st.gen {
			sameGen = false
		}
	}
	out.guard = c.def("g", "Bool", or(guards...))
	keys := map[string]bool{}
	for _, e := range edges {
		for k := range e.st.cells {
			keys[k] = true
		}
	}
	if sameGen {
		out.gen = edges[0].st.gen
	} else {
		genCounter++
		out.gen = genCounter
		for r := range c.regions {
			keys[r] = true
		}
		keys["$alloc"] = true
	}
	ks := make([]string, 0, len(keys))
	for k := range keys {
		ks = append(ks, k)
	}
	sort.Strings(ks)
	for _, k := range ks {
		var vals []Val
		var gs []string
		for _, e := range edges {
			v, ok := e.st.cells[k]
			if !ok {
				if isRegionKey(k) {
					v = Val{S: c.regionInit(k, e.st.gen)}
				} else {
					continue // local not live on that path
				}
			}
			vals = append(vals, v)
			gs = append(gs, e.st.guard)
		}
		if len(vals) == 0 {
			continue
		}
		out.cells[k] = c.mergeVals(k, vals, gs)
	}
	return out
}

func (c *Ctx) mergeVals(k string, vals []Val, gs []string) Val {
	first := vals[0]
	same := true
	for _, v := range vals[1:] {
		if v.S != first.S || v.P != first.P || v.Fn != first.Fn {
			same = false
		}
	}
	if same {
		return first
	}
	for _, v := range vals {
		if v.S == "" {
			// executor-level value (pointer / closure) that differs between paths
			return Val{T: first.T, Undef: true}
		}
	}
	term := vals[len(vals)-1].S
	for i := len(vals) - 2; i >= 0; i-- {
		term = ite(gs[i], vals[i].S, term)
	}
	sort_ := ""
	if first.T != nil {
		sort_ = c.sortOf(first.T)
	} else {
		sort_ = c.regionSort(k)
	}
	name := "m"
	if isRegionKey(k) {
		name = strings.TrimLeft(k, "$") + "_m"
	}
	return Val{T: first.T, S: c.def(name, sort_, term)}
}

// ---------------------------------------------------------------------
// memory access through pointers

func (c *Ctx) projPath(base string, baseT types.Type, path []PathElem) (string, types.Type) {
	cur, t := base, baseT
	for _, pe := range path {
		if pe.Field >= 0 {
			st := t.Underlying().(*types.Struct)
			name := c.structSort(t)
			cur = sx(structFieldSel(name, pe.Field, st), cur)
			t = st.Field(pe.Field).Type()
		} else {
			at := t.Underlying().(*types.Array)
			cur = sx("select", cur, pe.Index)
			t = at.Elem()
		}
	}
	return cur, t
}

func (c *Ctx) updPath(base string, baseT types.Type, path []PathElem, nv string) string {
	if len(path) == 0 {
		return nv
	}
	pe := path[0]
	if pe.Field >= 0 {
		st := baseT.Underlying().(*types.Struct)
		name := c.structSort(baseT)
		var fs []string
		for i := 0; i < st.NumFields(); i++ {
			sel := sx(structFieldSel(name, i, st), base)
			if i == pe.Field {
				fs = append(fs, c.updPath(sel, st.Field(i).Type(), path[1:], nv))
			} else {
				fs = append(fs, sel)
			}
		}
		return sx("mk-"+name, fs...)
	}
	at := baseT.Underlying().(*types.Array)
	inner := c.updPath(sx("select", base, pe.Index), at.Elem(), path[1:], nv)
	return sx("store", base, pe.Index, inner)
}

// loadBase reads the value stored at the base location of p.
func (c *Ctx) loadBase(s *State, p *Ptr) string {
	switch p.Kind {
	case pCell:
		v, ok := s.cells[p.Cell]
		if (!ok || v.S == "") && isRegionKey(p.Cell) {
			return c.regionInit(p.Cell, s.gen) // package-level variable not written so far
		}
		if !ok || v.S == "" {
			panic(unsupported("read of unset or non-SMT cell " + p.Cell))
		}
		return v.S
	case pField:
		r, _ := c.fieldRegion(p.SType, p.Field)
		return sx("select", c.region(s, r), p.Ref)
	case pElem:
		r, _ := c.elemRegion(p.BaseT)
		return sx("select", sx("select", c.region(s, r), p.Ref), p.Idx)
	case pHeap:
		r, _ := c.cellRegion(p.BaseT)
		return sx("select", c.region(s, r), p.Ref)
	}
	panic("bad ptr kind")
}

func (c *Ctx) storeBase(s *State, p *Ptr, nv string) {
	switch p.Kind {
	case pCell:
		old := s.cells[p.Cell]
		s.cells[p.Cell] = Val{T: old.T, S: c.def("c", c.sortOf(p.BaseT), nv)}
	case pField:
		r, _ := c.fieldRegion(p.SType, p.Field)
		c.setRegion(s, r, sx("store", c.region(s, r), p.Ref, nv))
	case pElem:
		r, _ := c.elemRegion(p.BaseT)
		h := c.region(s, r)
		c.setRegion(s, r, sx("store", h, p.Ref, sx("store", sx("select", h, p.Ref), p.Idx, nv)))
	case pHeap:
		r, _ := c.cellRegion(p.BaseT)
		c.setRegion(s, r, sx("store", c.region(s, r), p.Ref, nv))
	}
}

func (c *Ctx) loadPtr(s *State, p *Ptr) (string, types.Type) {
	base := c.loadBase(s, p)
	return c.projPath(base, p.BaseT, p.Path)
}

func (c *Ctx) storePtr(s *State, p *Ptr, nv string) {
	if len(p.Path) == 0 {
		c.storeBase(s, p, nv)
		return
	}
	base := c.loadBase(s, p)
	c.storeBase(s, p, c.updPath(base, p.BaseT, p.Path, nv))
}

// loadStruct reads a whole struct object (all fields) at ref.
func (c *Ctx) loadStruct(s *State, t types.Type, ref string) string {
	st := t.Underlying().(*types.Struct)
	name := c.structSort(t)
	if st.NumFields() == 0 {
		return "mk-" + name
	}
	var fs []string
	for i := 0; i < st.NumFields(); i++ {
		r, _ := c.fieldRegion(t, i)
		fs = append(fs, sx("select", c.region(s, r), ref))
	}
	return sx("mk-"+name, fs...)
}

func (c *Ctx) storeStruct(s *State, t types.Type, ref string, v string) {
	st := t.Underlying().(*types.Struct)
	name := c.structSort(t)
	for i := 0; i < st.NumFields(); i++ {
		r, _ := c.fieldRegion(t, i)
		c.setRegion(s, r, sx("store", c.region(s, r), ref, sx(structFieldSel(name, i, st), v)))
	}
}

// slice accessors
func sRef(s string) string { return accessor("s.ref", s, 0) }
func sOff(s string) string { return accessor("s.off", s, 1) }
func sLen(s string) string { return accessor("s.len", s, 2) }
func sCap(s string) string { return accessor("s.cap", s, 3) }

// accessor simplifies (sel (mk-slice a b c d)) syntactically.
func accessor(sel, s string, i int) string {
	if strings.HasPrefix(s, "(mk-slice ") {
		parts := splitSexp(s[len("(mk-slice ") : len(s)-1])
		if len(parts) == 4 {
			return parts[i]
		}
	}
	return sx(sel, s)
}

func splitSexp(s string) []string {
	var out []string
	depth := 0
	start := -1
	for i := 0; i < len(s); i++ {
		ch := s[i]
		switch {
		case ch == '(':
			if depth == 0 && start < 0 {
				start = i
			}
			depth++
		case ch == ')':
			depth--
			if depth == 0 {
				out = append(out, s[start:i+1])
				start = -1
			}
		case ch == ' ':
			if depth == 0 && start >= 0 {
				out = append(out, s[start:i])
				start = -1
			}
		default:
			if depth == 0 && start < 0 {
				start = i
			}
		}
	}
	if start >= 0 {
		out = append(out, s[start:])
	}
	return out
}

func mkSlice(ref, off, ln, cp string) string { return sx("mk-slice", ref, off, ln, cp) }
