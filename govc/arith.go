package main

// Machine arithmetic in the two integer encodings (Int with explicit
// two's-complement wrap-around, or bit-vectors) and the two float encodings.

import (
	"fmt"
	"go/token"
	"go/types"
	"math"
	"math/big"
	"strings"
)

func mathFloat64bits(f float64) uint64 { return math.Float64bits(f) }

func pow2(w int) *big.Int { return new(big.Int).Lsh(big.NewInt(1), uint(w)) }

// wrapLIA reduces an Int term into the range of (w, signed).
func wrapLIA(x string, w int, signed bool) string {
	m := pow2(w).String()
	if !signed {
		return sx("mod", x, m)
	}
	h := pow2(w - 1).String()
	return sx("-", sx("mod", sx("+", x, h), m), h)
}

// wrap1 corrects a value known to be at most one modulus outside the range.
// wrapInQuant: under a quantifier no definitions can be introduced, so the
// operand would be copied five times per operation (exponential in the depth
// of an arithmetic expression); a preamble function keeps the text linear.
var wrapInQuant func() bool

func wrap1(x string, w int, signed bool) string {
	if len(x) > 60 {
		sg := "u"
		if signed {
			sg = "s"
		}
		return sx(fmt.Sprintf("wrap1_%s%d", sg, w), x)
	}
	lo, hi := intRange(w, signed)
	m := pow2(w).String()
	return sx("ite", sx(">", x, intLit(hi)), sx("-", x, m), sx("ite", sx("<", x, intLit(lo)), sx("+", x, m), x))
}

func isIntLit(s string) (*big.Int, bool) {
	t := s
	neg := false
	if strings.HasPrefix(t, "(- ") && strings.HasSuffix(t, ")") {
		t = t[3 : len(t)-1]
		neg = true
	}
	if t == "" {
		return nil, false
	}
	for _, c := range t {
		if c < '0' || c > '9' {
			return nil, false
		}
	}
	v, ok := new(big.Int).SetString(t, 10)
	if !ok {
		return nil, false
	}
	if neg {
		v.Neg(v)
	}
	return v, true
}

func isBVLit(s string) (*big.Int, bool) {
	if !strings.HasPrefix(s, "(_ bv") {
		return nil, false
	}
	var v string
	var w int
	if _, err := fmt.Sscanf(s, "(_ bv%s %d)", &v, &w); err != nil {
		return nil, false
	}
	x, ok := new(big.Int).SetString(v, 10)
	return x, ok
}

// binop implements Go's binary operators on values of one numeric type
// (shifts: y may have another, unsigned or signed, integer type).
// It returns the result term and a panic condition ("" if none) that must be false.
func (c *Ctx) binop(op token.Token, t types.Type, x, y string, yT types.Type) (res string, panicIf string) {
	if isFloat(t) {
		return c.floatBinop(op, x, y), ""
	}
	if isString(t) {
		switch op {
		case token.ADD:
			r := c.freshSort("cat", "Str")
			c.assume(eq(sx("gstr_len", r), sx("+", sx("gstr_len", x), sx("gstr_len", y))))
			c.assumeDef(fmt.Sprintf("(forall ((i Int)) (! (=> (and (<= 0 i) (< i (gstr_len %s))) (= (gstr_at %s i) (gstr_at %s i))) :pattern ((gstr_at %s i))))", x, r, x, r))
			c.assumeDef(fmt.Sprintf("(forall ((i Int)) (! (=> (and (<= 0 i) (< i (gstr_len %s))) (= (gstr_at %s (+ (gstr_len %s) i)) (gstr_at %s i))) :pattern ((gstr_at %s i))))", y, r, x, y, y))
			return r, ""
		}
		panic(unsupported("string op " + op.String()))
	}
	if isBool(t) {
		switch op {
		case token.AND, token.LAND:
			return and(x, y), ""
		case token.OR, token.LOR:
			return or(x, y), ""
		}
		panic(unsupported("bool op " + op.String()))
	}
	w, signed, ok := intInfo(t)
	if !ok {
		panic(unsupported("binop on " + t.String()))
	}
	if c.mode.BV {
		return c.bvBinop(op, w, signed, x, y, yT)
	}
	return c.liaBinop(op, w, signed, x, y, yT)
}

func (c *Ctx) liaBinop(op token.Token, w int, signed bool, x, y string, yT types.Type) (string, string) {
	lo, _ := intRange(w, signed)
	switch op {
	case token.ADD:
		return wrap1(sx("+", x, y), w, signed), ""
	case token.SUB:
		return wrap1(sx("-", x, y), w, signed), ""
	case token.MUL:
		if _, ok := isIntLit(x); !ok {
			if _, ok := isIntLit(y); !ok {
				c.note("nonlinear integer multiplication (solver may answer unknown)")
			}
		}
		p := sx("*", x, y)
		if len(p) > 60 {
			// a preamble function keeps the text linear in the depth of the expression
			sg := "u"
			if signed {
				sg = "s"
			}
			return sx(fmt.Sprintf("wrapm_%s%d", sg, w), p), ""
		}
		lo2, hi2 := intRange(w, signed)
		return sx("ite", and(sx("<=", intLit(lo2), p), sx("<=", p, intLit(hi2))), p, wrapLIA(p, w, signed)), ""
	case token.QUO:
		// Go: truncated division; minint / -1 wraps to minint
		q := sx("ite", sx(">=", x, "0"),
			sx("ite", sx(">", y, "0"), sx("div", x, y), sx("-", sx("div", x, sx("-", y)))),
			sx("ite", sx(">", y, "0"), sx("-", sx("div", sx("-", x), y)), sx("div", sx("-", x), sx("-", y))))
		if yv, ok := isIntLit(y); ok && yv.Sign() > 0 {
			q = sx("ite", sx(">=", x, "0"), sx("div", x, y), sx("-", sx("div", sx("-", x), y)))
		}
		if signed {
			q = sx("ite", and(eq(x, intLit(lo)), eq(y, "(- 1)")), intLit(lo), q)
		}
		return q, eq(y, "0")
	case token.REM:
		// x - (x quo y) * y; sign follows x
		var r string
		if yv, ok := isIntLit(y); ok && yv.Sign() > 0 {
			r = sx("ite", sx(">=", x, "0"), sx("mod", x, y), sx("-", sx("mod", sx("-", x), y)))
		} else {
			ay := sx("ite", sx(">=", y, "0"), y, sx("-", y))
			r = sx("ite", sx(">=", x, "0"), sx("mod", x, ay), sx("-", sx("mod", sx("-", x), ay)))
		}
		return r, eq(y, "0")
	case token.SHL:
		if k, ok := isIntLit(y); ok && k.IsInt64() && k.Int64() >= 0 && k.Int64() < 64 {
			if int(k.Int64()) >= w {
				return "0", ""
			}
			return wrapLIA(sx("*", x, pow2(int(k.Int64())).String()), w, signed), ""
		}
		r := c.uf("shl", w, signed, x, y)
		return r, c.negShift(y, yT)
	case token.SHR:
		if k, ok := isIntLit(y); ok && k.IsInt64() && k.Int64() >= 0 && k.Int64() < 64 {
			return sx("div", x, pow2(int(k.Int64())).String()), "" // floor division = arithmetic shift
		}
		r := c.uf("shr", w, signed, x, y)
		return r, c.negShift(y, yT)
	case token.AND:
		if m, ok := isIntLit(y); ok {
			if k := maskBits(m); k >= 0 && !signed {
				return sx("mod", x, pow2(k).String()), ""
			}
			if k := maskBits(m); k >= 0 && signed {
				return sx("mod", x, pow2(k).String()), "" // two's complement: low k bits
			}
		}
		if m, ok := isIntLit(x); ok {
			if k := maskBits(m); k >= 0 {
				return sx("mod", y, pow2(k).String()), ""
			}
		}
		r := c.uf("and", w, signed, x, y)
		if !signed {
			c.assume(and(sx("<=", r, x), sx("<=", r, y)))
		}
		return r, ""
	case token.OR:
		r := c.uf("or", w, signed, x, y)
		// bits that do not overlap add up: (x has its low k bits clear, 0 <= y < 2^k) => x|y == x+y
		for _, k := range []int{4, 8, 16, 24, 32} {
			if k >= w {
				break
			}
			m := pow2(k).String()
			c.assume(implies(and(eq(sx("mod", x, m), "0"), sx("<=", "0", y), sx("<", y, m)), eq(r, sx("+", x, y))))
			c.assume(implies(and(eq(sx("mod", y, m), "0"), sx("<=", "0", x), sx("<", x, m)), eq(r, sx("+", x, y))))
		}
		if !signed {
			c.assume(and(sx(">=", r, x), sx(">=", r, y), sx("<=", r, sx("+", x, y))))
		} else {
			c.assume(implies(and(sx(">=", x, "0"), sx(">=", y, "0")), and(sx(">=", r, x), sx(">=", r, y), sx("<=", r, sx("+", x, y)))))
		}
		return r, ""
	case token.XOR:
		r := c.uf("xor", w, signed, x, y)
		if !signed {
			c.assume(sx("<=", r, sx("+", x, y)))
		}
		if !signed && w == 8 {
			// bytes: the exact bitwise definition (linear: div/mod by constants)
			c.assume(eq(r, sx("xor8_exact", x, y)))
		}
		return r, ""
	case token.AND_NOT:
		r := c.uf("andnot", w, signed, x, y)
		if !signed {
			c.assume(sx("<=", r, x))
		}
		return r, ""
	}
	panic(unsupported("int op " + op.String()))
}

func maskBits(m *big.Int) int {
	// m == 2^k - 1 ?
	if m.Sign() < 0 {
		return -1
	}
	x := new(big.Int).Add(m, big.NewInt(1))
	if x.BitLen() > 0 && new(big.Int).And(x, m).Sign() == 0 {
		return x.BitLen() - 1
	}
	return -1
}

// uf: an uninterpreted function for a bit operation in lia mode, with its
// result constrained to the type's range.
func (c *Ctx) uf(name string, w int, signed bool, x, y string) string {
	f := fmt.Sprintf("uf_%s_%d_%v", name, w, signed)
	c.declareFun(f, []string{"Int", "Int"}, "Int")
	r := sx(f, x, y)
	lo, hi := intRange(w, signed)
	c.assume(and(sx("<=", intLit(lo), r), sx("<=", r, intLit(hi))))
	c.note("lia mode: bit operation " + name + " is an uninterpreted function with range bounds only")
	return r
}

func (c *Ctx) negShift(y string, yT types.Type) string {
	if yT == nil {
		return ""
	}
	if _, signed, ok := intInfo(yT); ok && signed {
		if c.mode.BV {
			w, _, _ := intInfo(yT)
			return sx("bvslt", y, bvLit(big.NewInt(0), w))
		}
		return sx("<", y, "0")
	}
	return ""
}

func (c *Ctx) bvResize(x string, from int, signed bool, to int) string {
	if from == to {
		return x
	}
	if from > to {
		return fmt.Sprintf("((_ extract %d 0) %s)", to-1, x)
	}
	if signed {
		return fmt.Sprintf("((_ sign_extend %d) %s)", to-from, x)
	}
	return fmt.Sprintf("((_ zero_extend %d) %s)", to-from, x)
}

func (c *Ctx) bvBinop(op token.Token, w int, signed bool, x, y string, yT types.Type) (string, string) {
	zero := bvLit(big.NewInt(0), w)
	switch op {
	case token.ADD:
		return sx("bvadd", x, y), ""
	case token.SUB:
		return sx("bvsub", x, y), ""
	case token.MUL:
		return sx("bvmul", x, y), ""
	case token.QUO:
		if signed {
			return sx("bvsdiv", x, y), eq(y, zero)
		}
		return sx("bvudiv", x, y), eq(y, zero)
	case token.REM:
		if signed {
			return sx("bvsrem", x, y), eq(y, zero)
		}
		return sx("bvurem", x, y), eq(y, zero)
	case token.AND:
		return sx("bvand", x, y), ""
	case token.OR:
		return sx("bvor", x, y), ""
	case token.XOR:
		return sx("bvxor", x, y), ""
	case token.AND_NOT:
		return sx("bvand", x, sx("bvnot", y)), ""
	case token.SHL, token.SHR:
		yw, ysigned := w, false
		if yT != nil {
			if ww, ss, ok := intInfo(yT); ok {
				yw, ysigned = ww, ss
			}
		}
		// shift count: saturate to w when it does not fit
		var yy string
		if yw <= w {
			yy = c.bvResize(y, yw, false, w)
		} else {
			big_ := sx("bvuge", y, bvLit(big.NewInt(int64(w)), yw))
			yy = sx("ite", big_, bvLit(big.NewInt(int64(w)), w), c.bvResize(y, yw, false, w))
		}
		pan := ""
		if ysigned {
			pan = sx("bvslt", y, bvLit(big.NewInt(0), yw))
		}
		if op == token.SHL {
			return sx("bvshl", x, yy), pan
		}
		if signed {
			return sx("bvashr", x, yy), pan
		}
		return sx("bvlshr", x, yy), pan
	}
	panic(unsupported("bv op " + op.String()))
}

func (c *Ctx) floatBinop(op token.Token, x, y string) string {
	if c.mode.FP {
		switch op {
		case token.ADD:
			return sx("fp.add", "RNE", x, y)
		case token.SUB:
			return sx("fp.sub", "RNE", x, y)
		case token.MUL:
			return sx("fp.mul", "RNE", x, y)
		case token.QUO:
			return sx("fp.div", "RNE", x, y)
		}
	} else {
		c.note("float64 arithmetic treated as mathematical reals (arith real)")
		switch op {
		case token.ADD:
			return sx("+", x, y)
		case token.SUB:
			return sx("-", x, y)
		case token.MUL:
			return sx("*", x, y)
		case token.QUO:
			// division by zero yields Inf/NaN in Go; unspecified here
			return sx("/", x, y)
		}
	}
	panic(unsupported("float op " + op.String()))
}

// compare implements == != < <= > >= on numeric / string / bool values.
func (c *Ctx) compare(op token.Token, t types.Type, x, y string) string {
	if isBool(t) {
		switch op {
		case token.EQL:
			return eq(x, y)
		case token.NEQ:
			return not(eq(x, y))
		}
	}
	switch op {
	case token.EQL:
		if isFloat(t) && c.mode.FP {
			return sx("fp.eq", x, y)
		}
		return eq(x, y)
	case token.NEQ:
		if isFloat(t) && c.mode.FP {
			return not(sx("fp.eq", x, y))
		}
		return not(eq(x, y))
	}
	if isFloat(t) {
		if c.mode.FP {
			m := map[token.Token]string{token.LSS: "fp.lt", token.LEQ: "fp.leq", token.GTR: "fp.gt", token.GEQ: "fp.geq"}
			return sx(m[op], x, y)
		}
		m := map[token.Token]string{token.LSS: "<", token.LEQ: "<=", token.GTR: ">", token.GEQ: ">="}
		return sx(m[op], x, y)
	}
	if isString(t) {
		f := "gstr_lt"
		c.declareFun(f, []string{"Str", "Str"}, "Bool")
		c.note("string ordering is an uninterpreted strict total order")
		if c.inQuant == 0 {
			// trichotomy for the two operands
			c.assume(and(or(sx(f, x, y), eq(x, y), sx(f, y, x)), not(and(sx(f, x, y), sx(f, y, x))), not(sx(f, x, x))))
		}
		switch op {
		case token.LSS:
			return sx(f, x, y)
		case token.GTR:
			return sx(f, y, x)
		case token.LEQ:
			return not(sx(f, y, x))
		case token.GEQ:
			return not(sx(f, x, y))
		}
	}
	_, signed, ok := intInfo(t)
	if !ok {
		panic(unsupported("compare on " + t.String()))
	}
	if c.mode.BV {
		var m map[token.Token]string
		if signed {
			m = map[token.Token]string{token.LSS: "bvslt", token.LEQ: "bvsle", token.GTR: "bvsgt", token.GEQ: "bvsge"}
		} else {
			m = map[token.Token]string{token.LSS: "bvult", token.LEQ: "bvule", token.GTR: "bvugt", token.GEQ: "bvuge"}
		}
		return sx(m[op], x, y)
	}
	m := map[token.Token]string{token.LSS: "<", token.LEQ: "<=", token.GTR: ">", token.GEQ: ">="}
	return sx(m[op], x, y)
}

func (c *Ctx) neg(t types.Type, x string) string {
	if isFloat(t) {
		if c.mode.FP {
			return sx("fp.neg", x)
		}
		return sx("-", x)
	}
	w, signed, _ := intInfo(t)
	if c.mode.BV {
		return sx("bvneg", x)
	}
	return wrap1(sx("-", x), w, signed)
}

func (c *Ctx) bitnot(t types.Type, x string) string {
	w, signed, _ := intInfo(t)
	if c.mode.BV {
		return sx("bvnot", x)
	}
	if signed {
		return sx("-", sx("-", x), "1") // ^x == -x-1
	}
	return sx("-", pow2(w).String()+"", sx("+", x, "1"))
}

// convert implements Go's numeric conversions.
func (c *Ctx) convert(from, to types.Type, x string) string {
	fw, fs, fi := intInfo(from)
	tw, ts, ti := intInfo(to)
	switch {
	case fi && ti:
		if c.mode.BV {
			return c.bvResize(x, fw, fs, tw)
		}
		flo, fhi := intRange(fw, fs)
		tlo, thi := intRange(tw, ts)
		if flo.Cmp(tlo) >= 0 && fhi.Cmp(thi) <= 0 {
			return x
		}
		if fw == tw { // same width, different signedness: one correction
			return wrap1(x, tw, ts)
		}
		return wrapLIA(x, tw, ts)
	case fi && isFloat(to):
		if c.mode.FP {
			if c.mode.BV {
				if fs {
					return sx("(_ to_fp 11 53)", "RNE", x)
				}
				return sx("(_ to_fp_unsigned 11 53)", "RNE", x)
			}
			return sx("(_ to_fp 11 53)", "RNE", sx("to_real", x))
		}
		if c.mode.BV {
			if fs {
				n := sx("bv2nat", x)
				return sx("to_real", sx("ite", sx("bvslt", x, bvLit(big.NewInt(0), fw)), sx("-", n, pow2(fw).String()), n))
			}
			return sx("to_real", sx("bv2nat", x))
		}
		if fw == 64 {
			c.note("int64 -> float64 conversion treated as exact (arith real)")
		}
		return sx("to_real", x)
	case isFloat(from) && ti:
		if c.mode.FP {
			if c.mode.BV {
				if ts {
					return fmt.Sprintf("((_ fp.to_sbv %d) RTZ %s)", tw, x)
				}
				return fmt.Sprintf("((_ fp.to_ubv %d) RTZ %s)", tw, x)
			}
			r := sx("fp.to_real", sx("fp.roundToIntegral", "RTZ", x))
			return c.truncToInt(r, tw, ts)
		}
		if c.mode.BV {
			panic(unsupported("real -> bv conversion"))
		}
		return c.truncToInt(x, tw, ts)
	case isFloat(from) && isFloat(to):
		return x
	case isString(from) && isString(to):
		return x
	}
	panic(unsupported(fmt.Sprintf("conversion %s -> %s", from, to)))
}

// truncToInt: real -> int with truncation; out-of-range results are
// implementation-defined in Go and left unconstrained within the type.
func (c *Ctx) truncToInt(x string, w int, signed bool) string {
	tr := sx("ite", sx(">=", x, "0.0"), sx("to_int", x), sx("-", sx("to_int", sx("-", x))))
	if iw, ok := c.intWitness(x, 0); ok {
		tr = iw // x is integer-valued: x == (to_real iw)
	}
	lo, hi := intRange(w, signed)
	// out of range: implementation-dependent, but a function of the value
	fn := fmt.Sprintf("f2i_%d_%v", w, signed)
	c.declareFun(fn, []string{"Int"}, "Int")
	any := sx(fn, tr)
	c.assume(and(sx("<=", intLit(lo), any), sx("<=", any, intLit(hi))))
	return sx("ite", and(sx("<=", intLit(lo), tr), sx("<=", tr, intLit(hi))), tr, any)
}

// toIdx converts an integer value of Go type t to a mathematical Int
// (used for indices, lengths and references, which are always Int).
func (c *Ctx) toIdx(t types.Type, x string) string {
	if !c.mode.BV {
		return x
	}
	w, signed, ok := intInfo(t)
	if !ok {
		panic(unsupported("toIdx of " + t.String()))
	}
	if v, ok := isBVLit(x); ok {
		if signed && v.Bit(w-1) == 1 {
			v = new(big.Int).Sub(v, pow2(w))
		}
		return intLit(v)
	}
	n := sx("bv2nat", x)
	if signed {
		return sx("ite", sx("bvslt", x, bvLit(big.NewInt(0), w)), sx("-", n, pow2(w).String()), n)
	}
	return n
}

// fromIdx converts a mathematical Int known to be in range to Go type t.
func (c *Ctx) fromIdx(t types.Type, x string) string {
	if !c.mode.BV {
		return x
	}
	w, _, _ := intInfo(t)
	if v, ok := isIntLit(x); ok {
		return bvLit(v, w)
	}
	return fmt.Sprintf("((_ int2bv %d) %s)", w, x)
}

// intWitness: for a Real term that is syntactically integer-valued (a rounding
// result, an integral literal, a conversion from an integer, or an ite / a
// definition over such terms) returns an Int term w with term == (to_real w).
// The solvers do not find this by themselves (to_int over ite-clamped values).
func (c *Ctx) intWitness(t string, depth int) (string, bool) {
	if depth > 12 {
		return "", false
	}
	if d, ok := c.defTerm[t]; ok {
		return c.intWitness(d, depth+1)
	}
	if !strings.HasPrefix(t, "(") {
		if strings.HasSuffix(t, ".0") {
			d := strings.TrimSuffix(t, ".0")
			for _, ch := range d {
				if ch < '0' || ch > '9' {
					return "", false
				}
			}
			return d, d != ""
		}
		return "", false
	}
	parts := splitSexp(t[1 : len(t)-1])
	switch {
	case len(parts) == 2 && parts[0] == "to_real":
		return parts[1], true
	case len(parts) == 2 && parts[0] == "-":
		if w, ok := c.intWitness(parts[1], depth+1); ok {
			return sx("-", w), true
		}
	case len(parts) == 4 && parts[0] == "ite":
		a, ok1 := c.intWitness(parts[2], depth+1)
		b, ok2 := c.intWitness(parts[3], depth+1)
		if ok1 && ok2 {
			return sx("ite", parts[1], a, b), true
		}
	}
	return "", false
}
