package main

import (
	"encoding/json"
	"flag"
	"fmt"
	"os"
	"path/filepath"
	"sort"
	"strconv"
	"strings"
	"time"
)

type Options struct {
	repo     string
	verif    string
	prop     string
	tier     string
	timeout  int
	jobs     int
	funcs    string
	keep     bool
	verbose  bool
	seed     int
	out      string
}

func main() {
	if len(os.Args) < 2 {
		fmt.Fprintln(os.Stderr, "usage: govc check|list|dump ...")
		os.Exit(2)
	}
	cmd := os.Args[1]
	fs := flag.NewFlagSet(cmd, flag.ExitOnError)
	var o Options
	fs.StringVar(&o.repo, "repo", "/repo", "repository root (current working tree is verified)")
	fs.StringVar(&o.verif, "verif", "/verif", "verification directory (contracts, known findings)")
	fs.StringVar(&o.out, "out", "", "output directory for evidence/, replays/, work/ (default: the verification directory)")
	fs.StringVar(&o.prop, "prop", "", "property id (Cxx)")
	fs.StringVar(&o.tier, "tier", "quick", "quick|thorough")
	fs.IntVar(&o.timeout, "timeout", 0, "per-query timeout in seconds (default 10 quick / 60 thorough)")
	fs.IntVar(&o.jobs, "jobs", 16, "parallel solver jobs")
	fs.StringVar(&o.funcs, "func", "", "restrict to functions whose key contains this string")
	fs.BoolVar(&o.keep, "keep", false, "keep all query files")
	fs.BoolVar(&o.verbose, "v", false, "verbose")
	fs.Parse(os.Args[2:])
	if s := os.Getenv("VERIF_SEED"); s != "" {
		o.seed, _ = strconv.Atoi(s)
	}
	if t := os.Getenv("VERIF_TIER"); t != "" && o.tier == "" {
		o.tier = t
	}
	if o.out == "" {
		o.out = o.verif
	}
	if o.timeout == 0 {
		o.timeout = 30
		if o.tier == "thorough" {
			o.timeout = 90
		}
	}
	switch cmd {
	case "check":
		os.Exit(runCheck(&o))
	case "list":
		os.Exit(runList(&o))
	case "mapranges":
		os.Exit(runMapRanges(&o))
	case "loops":
		os.Exit(runLoops(&o))
	case "locals-snapshot":
		os.Exit(runLocalsSnapshot(&o))
	default:
		fmt.Fprintln(os.Stderr, "unknown command", cmd)
		os.Exit(2)
	}
}

func loadAll(o *Options) (*Program, error) {
	p, err := loadProgram(o.repo)
	if err != nil {
		return nil, err
	}
	if err := p.loadExternalSpecs(filepath.Join(o.verif, "contracts")); err != nil {
		return nil, err
	}
	p.computeModSets()
	p.localsSnap = loadLocalsSnapshot(o.verif)
	return p, nil
}

func runList(o *Options) int {
	p, err := loadAll(o)
	if err != nil {
		fmt.Fprintln(os.Stderr, "load:", err)
		return 2
	}
	v := newVerifier(p)
	for _, k := range sortedKeys(p.contracts) {
		if o.funcs != "" && !strings.Contains(k, o.funcs) {
			continue
		}
		fc := p.contracts[k]
		if p.isGhostKey(k) {
			continue
		}
		if o.prop != "" && !fc.Props[o.prop] {
			continue
		}
		v.verifyFunc(k)
	}
	for _, ob := range v.obls {
		fmt.Printf("%s\t%v\t%s\n", ob.Name, ob.Props, ob.Pos)
	}
	for _, k := range sortedKeys(v.funcs) {
		if r := v.funcs[k]; r.Error != "" {
			fmt.Printf("ERROR %s: %s\n", k, r.Error)
		}
	}
	return 0
}

func (p *Program) isGhostKey(k string) bool {
	fn := p.byName[k]
	return fn != nil && p.isGhostFn(fn)
}

type oblOut struct {
	Name    string `json:"name"`
	Kind    string `json:"kind"`
	Func    string `json:"func"`
	Pos     string `json:"pos"`
	Result  string `json:"result"`
	Backend string `json:"backend"`
	Ms      int64  `json:"ms"`
}

func hasProp(ps []string, p string) bool {
	for _, x := range ps {
		if x == p {
			return true
		}
	}
	return false
}

func runCheck(o *Options) int {
	start := time.Now()
	if o.prop == "" {
		fmt.Fprintln(os.Stderr, "check: -prop required")
		return 2
	}
	p, err := loadAll(o)
	if err != nil {
		fmt.Println("govc: cannot load the working tree:", err)
		writeBrokenEvidence(o, "load failure: "+err.Error(), start)
		fmt.Printf("VIOLATION property=%s replay=%s no-failing-input-found\n", o.prop, filepath.Join(o.out, "replays", o.prop+"-load.txt"))
		os.MkdirAll(filepath.Join(o.out, "replays"), 0o755)
		os.WriteFile(filepath.Join(o.out, "replays", o.prop+"-load.txt"), []byte("tree does not load with -tags verif: "+err.Error()+"\n"), 0o644)
		return 1
	}
	v := newVerifier(p)
	// a contract that belongs to no property would be assumed by its callers but never checked
	for _, k := range sortedKeys(p.contracts) {
		fc := p.contracts[k]
		if fc.Trusted || fc.Ghost || p.isGhostKey(k) || strings.Contains(k, ".type:") || len(fc.Props) > 0 {
			continue
		}
		if len(fc.Ensures) > 0 {
			v.problems = append(v.problems, "contract of "+k+" belongs to no property: its ensures clauses would be assumed without ever being checked")
		}
	}
	var keys []string
	for _, k := range sortedKeys(p.contracts) {
		fc := p.contracts[k]
		if p.isGhostKey(k) && !fc.Lemma {
			continue
		}
		if !fc.Props[o.prop] || strings.Contains(k, ".type:") {
			continue
		}
		if o.funcs != "" && !strings.Contains(k, o.funcs) {
			continue
		}
		keys = append(keys, k)
	}
	for _, k := range keys {
		v.verifyFunc(k)
	}
	var mine []*Obligation
	for _, ob := range v.obls {
		if hasProp(ob.Props, o.prop) {
			mine = append(mine, ob)
		}
	}
	qdir := filepath.Join(o.out, "work", o.prop)
	os.RemoveAll(qdir)
	if o.tier != "thorough" {
		// obligations listed as not claimed are not attempted in the quick tier
		for _, ob := range mine {
			if _, skip := loadUnprovedCached(o.verif)[ob.Name]; skip {
				ob.Result = SolverResult{Status: "not-attempted", Backend: "none"}
			}
		}
	}
	v.discharge(mine, qdir, o.timeout, o.tier == "thorough", o.jobs)
	if o.tier == "thorough" || os.Getenv("GOVC_COVER") != "" {
		v.unreachable = v.coverCheck(mine, qdir, o.jobs)
	}
	return report(o, p, v, keys, mine, start)
}

func writeBrokenEvidence(o *Options, why string, start time.Time) {
	ev := map[string]interface{}{
		"property_id": o.prop, "tier": o.tier, "seed": o.seed, "level": "proof",
		"coverage": map[string]interface{}{"obligations": 1, "discharged": 0, "checker_cmd": "govc check -prop " + o.prop,
			"trusted_base": []string{}, "explanation": why},
		"wall_s": time.Since(start).Seconds(), "violations": 1,
	}
	writeJSON(filepath.Join(o.out, "evidence", o.prop+".json"), ev)
}

func writeJSON(path string, v interface{}) {
	os.MkdirAll(filepath.Dir(path), 0o755)
	data, _ := json.MarshalIndent(v, "", " ")
	os.WriteFile(path, append(data, '\n'), 0o644)
}

func sortedSet(m map[string]bool) []string {
	var out []string
	for k := range m {
		out = append(out, k)
	}
	sort.Strings(out)
	return out
}

var unprovedCache map[string]string

func loadUnprovedCached(verif string) map[string]string {
	if unprovedCache == nil {
		unprovedCache = loadUnproved(verif)
	}
	return unprovedCache
}

// runLoops prints the loop ordinals of the selected functions.
func runLoops(o *Options) int {
	p, err := loadAll(o)
	if err != nil {
		fmt.Fprintln(os.Stderr, "load:", err)
		return 2
	}
	for _, k := range sortedKeys(p.byName) {
		if o.funcs == "" || !strings.Contains(k, o.funcs) {
			continue
		}
		fn := p.byName[k]
		for _, li := range findLoops(fn) {
			pos := ""
			for b := range li.body {
				for _, in := range b.Instrs {
					if in.Pos().IsValid() {
						pp := p.fset.Position(in.Pos())
						if pos == "" || pp.Line < atoiDefault(pos) {
							pos = fmt.Sprint(pp.Line)
						}
					}
				}
			}
			fmt.Printf("%s loop %d (%s) first line %s\n", k, li.ord, li.header.Comment, pos)
		}
	}
	return 0
}

func atoiDefault(s string) int {
	n, _ := strconv.Atoi(s)
	return n
}

// runMapRanges lists every range-over-map loop of the module (C17 scan).
func runMapRanges(o *Options) int {
	p, err := loadAll(o)
	if err != nil {
		fmt.Fprintln(os.Stderr, "load:", err)
		return 2
	}
	for _, k := range sortedKeys(p.byName) {
		fn := p.byName[k]
		if p.isGhostFn(fn) {
			continue
		}
		for _, li := range findLoops(fn) {
			if li.header.Comment == "rangeiter.loop" {
				pos := ""
				for _, in := range li.header.Instrs {
					if in.Pos().IsValid() {
						pp := p.fset.Position(in.Pos())
						pos = fmt.Sprintf("%s:%d", strings.TrimPrefix(pp.Filename, p.repo+"/"), pp.Line)
						break
					}
				}
				fmt.Printf("%s loop %d %s\n", k, li.ord, pos)
			}
		}
	}
	return 0
}
