package main

// Write sets ("modifies" frames) computed from the real code: for every
// function of the module the set of heap regions it may write, closed under
// static calls.  Being derived by a conservative static analysis of the SSA,
// the frames are not trusted annotations.

import (
	"strings"
	"go/types"

	"golang.org/x/tools/go/ssa"
)

type RegionDesc struct {
	Kind  string // field, elem, cell, map, global, alloc
	T     types.Type
	Field int
	Name  string
}

type ModSet struct {
	Regions map[string]bool
	Descs   map[string]RegionDesc
	All     bool
	Reads   bool // may read from an underlying io.Reader (moves the ghost tape cursor)
	Writes  bool // may write to an underlying io.Writer (moves the ghost output cursor)
	Locks   bool // may lock or unlock a mutex (changes the ghost flag held())
}

func newModSet() *ModSet {
	return &ModSet{Regions: map[string]bool{}, Descs: map[string]RegionDesc{}}
}

func (m *ModSet) add(d RegionDesc) bool {
	if m.Regions[d.Name] {
		return false
	}
	m.Regions[d.Name] = true
	if m.Descs == nil {
		m.Descs = map[string]RegionDesc{}
	}
	m.Descs[d.Name] = d
	return true
}

func (m *ModSet) union(o *ModSet) bool {
	ch := false
	if o.All && !m.All {
		m.All = true
		ch = true
	}
	if (o.Reads || o.All) && !m.Reads {
		m.Reads = true
		ch = true
	}
	if (o.Writes || o.All) && !m.Writes {
		m.Writes = true
		ch = true
	}
	if o.Locks && !m.Locks {
		m.Locks = true
		ch = true
	}
	for _, d := range o.Descs {
		if m.add(d) {
			ch = true
		}
	}
	return ch
}

// register makes the regions of m known to the query context.
func (m *ModSet) register(c *Ctx) {
	for _, d := range m.Descs {
		switch d.Kind {
		case "field":
			c.fieldRegion(d.T, d.Field)
		case "elem":
			c.elemRegion(d.T)
		case "cell":
			c.cellRegion(d.T)
		case "map":
			c.mapRegions(d.T)
		case "global":
			c.regions[d.Name] = c.sortOf(d.T)
		}
	}
}

// naming must agree with ctx.go
func descField(st types.Type, i int) RegionDesc {
	s := st.Underlying().(*types.Struct)
	return RegionDesc{Kind: "field", T: st, Field: i, Name: "F_" + san(typeStr(st)) + "_" + san(s.Field(i).Name())}
}
func descElem(t types.Type) RegionDesc {
	return RegionDesc{Kind: "elem", T: t, Name: "H_" + san(typeStr(t))}
}
func descCell(t types.Type) RegionDesc {
	return RegionDesc{Kind: "cell", T: t, Name: "C_" + san(typeStr(t))}
}
func descMaps(t types.Type) []RegionDesc {
	k := mapKey(t)
	return []RegionDesc{{Kind: "map", T: t, Name: "MH_" + k}, {Kind: "map", T: t, Name: "MV_" + k}, {Kind: "map", T: t, Name: "ML_" + k}}
}
func descGlobal(g *ssa.Global) RegionDesc {
	return RegionDesc{Kind: "global", T: g.Type().(*types.Pointer).Elem(), Name: "G_" + san(g.Pkg.Pkg.Name()+"."+g.Name())}
}

var descAlloc = RegionDesc{Kind: "alloc", Name: "$alloc"}

func addPointee(ms *ModSet, et types.Type) {
	switch u := et.Underlying().(type) {
	case *types.Struct:
		for i := 0; i < u.NumFields(); i++ {
			ms.add(descField(et, i))
		}
	case *types.Array:
		ms.add(descElem(u.Elem()))
	default:
		ms.add(descCell(et))
	}
}

// storeTargets adds the regions a store through addr may write.
func storeTargets(addr ssa.Value, ms *ModSet) {
	switch a := addr.(type) {
	case *ssa.Alloc:
		if !a.Heap || privateAlloc(a) {
			return
		}
		addPointee(ms, a.Type().(*types.Pointer).Elem())
	case *ssa.FieldAddr:
		if ra := rootAlloc(a); ra != nil && (!ra.Heap || privateAlloc(ra)) {
			return
		}
		// a field of a heap struct object, possibly nested by value
		root := a
		for {
			if inner, ok := root.X.(*ssa.FieldAddr); ok {
				root = inner
				continue
			}
			break
		}
		if ia, ok := root.X.(*ssa.IndexAddr); ok {
			storeTargets(ia, ms)
			return
		}
		st := root.X.Type().Underlying().(*types.Pointer).Elem()
		ms.add(descField(st, root.Field))
	case *ssa.IndexAddr:
		switch bt := a.X.Type().Underlying().(type) {
		case *types.Slice:
			ms.add(descElem(bt.Elem()))
		case *types.Pointer:
			if ra := rootAlloc(a); ra != nil && (!ra.Heap || privateAlloc(ra)) {
				return
			}
			if fa, ok := a.X.(*ssa.FieldAddr); ok {
				storeTargets(fa, ms)
				return
			}
			ms.add(descElem(bt.Elem().Underlying().(*types.Array).Elem()))
		}
	case *ssa.Global:
		ms.add(descGlobal(a))
	default:
		if pt, ok := addr.Type().Underlying().(*types.Pointer); ok {
			addPointee(ms, pt.Elem())
		} else {
			ms.All = true
		}
	}
}

var geomDepth int

func (p *Program) callMods(cc *ssa.CallCommon, ms *ModSet) {
	if b, ok := cc.Value.(*ssa.Builtin); ok {
		switch b.Name() {
		case "append":
			if sl, ok := cc.Args[0].Type().Underlying().(*types.Slice); ok {
				ms.add(descElem(sl.Elem()))
			}
			ms.add(descAlloc)
		case "copy":
			if sl, ok := cc.Args[0].Type().Underlying().(*types.Slice); ok {
				ms.add(descElem(sl.Elem()))
			}
		case "delete":
			for _, d := range descMaps(cc.Args[0].Type()) {
				ms.add(d)
			}
		}
		return
	}
	if cc.IsInvoke() {
		switch cc.Method.FullName() {
		case "(io.Reader).Read":
			ms.add(descElem(types.Typ[types.Uint8]))
			ms.add(descAlloc)
			ms.Reads = true
		case "(io.Writer).Write":
			ms.add(descAlloc)
			ms.Writes = true
		case "(error).Error", "(io.Seeker).Seek":
			ms.add(descAlloc)
		default:
			ms.All = true
			ms.Reads = true
		}
		return
	}
	callee := resolveCallee(cc.Value)
	if callee == nil {
		ms.All = true
		ms.Reads = true
		return
	}
	inMod := callee.Pkg != nil && p.inModule(callee.Pkg.Pkg.Path()) || callee.Parent() != nil
	if callee.Pkg == nil && callee.Parent() == nil && callee.Origin() != nil {
		inMod = false
	}
	if inMod {
		if cm, ok := p.modsets[callee]; ok {
			ms.union(cm)
		}
		return
	}
	// geometry package: executed from source (see externalCall), so its writes are computed from source too
	if callee.Pkg != nil && strings.HasPrefix(callee.Pkg.Pkg.Path(), "seehuhn.de/go/geom/") && len(callee.Blocks) > 0 && len(findLoops(callee)) == 0 {
		if geomDepth < 8 {
			geomDepth++
			for _, b := range callee.Blocks {
				for _, in := range b.Instrs {
					p.instrMods(nil, in, ms, callee)
				}
			}
			geomDepth--
			return
		}
	}
	// external
	key := extKey(callee)
	if callee.Origin() != nil {
		key = extKey(callee.Origin())
	}
	switch key {
	case "sort.Slice":
		if mi, ok := cc.Args[0].(*ssa.MakeInterface); ok {
			if sl, ok := mi.X.Type().Underlying().(*types.Slice); ok {
				if lf := resolveCallee(cc.Args[1]); lf != nil {
					if lm, ok := p.modsets[lf]; ok && !lm.All {
						ro := true
						for r := range lm.Regions {
							if r != "$alloc" {
								ro = false
							}
						}
						if ro {
							ms.add(descElem(sl.Elem()))
							ms.add(descAlloc)
							return
						}
					}
				}
			}
		}
		ms.All = true
		return
	case "slices.Sort":
		if sl, ok := cc.Args[0].Type().Underlying().(*types.Slice); ok {
			ms.add(descElem(sl.Elem()))
		}
		return
	case "golang.org/x/exp/maps.Keys", "maps.Keys":
		ms.add(descAlloc)
		if sl, ok := cc.Signature().Results().At(0).Type().Underlying().(*types.Slice); ok {
			ms.add(descElem(sl.Elem()))
		}
		return
	}
	switch key {
	case "fmt.Fprintf", "fmt.Fprint", "fmt.Fprintln", "io.WriteString", "(*text/template.Template).ExecuteTemplate", "(*text/template.Template).Execute":
		ms.All = true
		ms.Writes = true
		return
	}
	if key == "io.ReadFull" {
		ms.add(descElem(types.Typ[types.Uint8]))
		ms.add(descAlloc)
		ms.Reads = true
		return
	}
	if key == "(*bufio.Scanner).Scan" {
		ms.Reads = true
	}
	if strings.HasPrefix(key, "(*sync.Mutex).") || strings.HasPrefix(key, "(*sync.RWMutex).") {
		ms.Locks = true
	}
	if _, ok := intrinsics[key]; ok {
		ms.add(descAlloc)
		return
	}
	if fc, ok := p.extSpecs[key]; ok {
		ms.add(descAlloc)
		for _, m := range fc.Modifies {
			if m == "all" {
				ms.All = true
			} else {
				ms.Regions[m] = true
			}
		}
		return
	}
	callback := false
	for _, a := range cc.Args {
		switch a.Type().Underlying().(type) {
		case *types.Interface, *types.Signature, *types.Pointer:
			callback = true
		}
	}
	if callback {
		ms.All = true
		ms.Reads = true
		return
	}
	for _, a := range cc.Args {
		if sl, ok := a.Type().Underlying().(*types.Slice); ok {
			ms.add(descElem(sl.Elem()))
		}
	}
	ms.add(descAlloc)
}

func (p *Program) instrMods(c *Ctx, in ssa.Instruction, ms *ModSet, fn *ssa.Function) {
	switch in := in.(type) {
	case *ssa.Store:
		storeTargets(in.Addr, ms)
	case *ssa.MapUpdate:
		for _, d := range descMaps(in.Map.Type()) {
			ms.add(d)
		}
	case *ssa.Call:
		p.callMods(&in.Call, ms)
	case *ssa.Defer:
		p.callMods(&in.Call, ms)
	case *ssa.Go:
		ms.All = true
	case *ssa.Alloc:
		if in.Heap && !privateAlloc(in) {
			ms.add(descAlloc)
			addPointee(ms, in.Type().(*types.Pointer).Elem())
		}
	case *ssa.MakeSlice:
		ms.add(descAlloc)
		ms.add(descElem(in.Type().Underlying().(*types.Slice).Elem()))
	case *ssa.MakeMap:
		ms.add(descAlloc)
		for _, d := range descMaps(in.Type()) {
			ms.add(d)
		}
	case *ssa.MakeClosure, *ssa.MakeInterface:
		ms.add(descAlloc)
	case *ssa.Convert:
		if isByteSlice(in.Type()) && isString(in.X.Type()) {
			ms.add(descAlloc)
			ms.add(descElem(types.Typ[types.Uint8]))
		}
	case *ssa.Send, *ssa.Select:
		ms.All = true
	}
	if c != nil {
		ms.register(c)
	}
}

// computeModSets: global fixpoint over the module's functions.
func (p *Program) computeModSets() {
	for _, fn := range p.funcList {
		p.modsets[fn] = newModSet()
	}
	for changed := true; changed; {
		changed = false
		for _, fn := range p.funcList {
			ms := newModSet()
			for _, b := range fn.Blocks {
				for _, in := range b.Instrs {
					p.instrMods(nil, in, ms, fn)
				}
			}
			if p.modsets[fn].union(ms) {
				changed = true
			}
		}
	}
}

func (p *Program) modSet(c *Ctx, fn *ssa.Function) *ModSet {
	ms, ok := p.modsets[fn]
	if !ok {
		ms = newModSet()
		ms.All = true
		return ms
	}
	ms.register(c)
	return ms
}

// resolveCallee finds the function a call value denotes when that is
// syntactically evident: a function, a closure, or a local variable that is
// assigned exactly once with one of those.
func resolveCallee(v ssa.Value) *ssa.Function {
	switch v := v.(type) {
	case *ssa.Function:
		return v
	case *ssa.MakeClosure:
		return v.Fn.(*ssa.Function)
	case *ssa.UnOp:
		if fv, ok := v.X.(*ssa.FreeVar); ok {
			return resolveFreeVar(fv)
		}
		a, ok := v.X.(*ssa.Alloc)
		if !ok || a.Referrers() == nil {
			return nil
		}
		return resolveAllocCallee(a)
	}
	return nil
}

// resolveFreeVar: a captured variable of function type that is assigned
// exactly once (with a function or closure) in the enclosing function.
func resolveFreeVar(fv *ssa.FreeVar) *ssa.Function {
	fn := fv.Parent()
	par := fn.Parent()
	if par == nil {
		return nil
	}
	idx := -1
	for i, f := range fn.FreeVars {
		if f == fv {
			idx = i
		}
	}
	if idx < 0 {
		return nil
	}
	var res *ssa.Function
	for _, b := range par.Blocks {
		for _, in := range b.Instrs {
			mc, ok := in.(*ssa.MakeClosure)
			if !ok || mc.Fn != ssa.Value(fn) || idx >= len(mc.Bindings) {
				continue
			}
			a, ok := mc.Bindings[idx].(*ssa.Alloc)
			if !ok {
				return nil
			}
			r := resolveAllocCallee(a)
			if r == nil || (res != nil && res != r) {
				return nil
			}
			res = r
		}
	}
	return res
}

func resolveAllocCallee(a *ssa.Alloc) *ssa.Function {
	{
		if a.Referrers() == nil {
			return nil
		}
		var only *ssa.Function
		n := 0
		for _, r := range *a.Referrers() {
			switch r := r.(type) {
			case *ssa.Store:
				if r.Addr != a {
					return nil // address escapes
				}
				n++
				only = resolveCallee(r.Val)
			case *ssa.UnOp, *ssa.DebugRef:
			case *ssa.MakeClosure:
				// captured by a closure: fine as long as that closure never stores to it
				cf := r.Fn.(*ssa.Function)
				for i, bnd := range r.Bindings {
					if bnd != ssa.Value(a) || i >= len(cf.FreeVars) {
						continue
					}
					if fvr := cf.FreeVars[i].Referrers(); fvr != nil {
						for _, u := range *fvr {
							if st, ok := u.(*ssa.Store); ok && st.Addr == ssa.Value(cf.FreeVars[i]) {
								return nil
							}
						}
					}
				}
			default:
				return nil
			}
		}
		if n == 1 {
			return only
		}
	}
	return nil
}
