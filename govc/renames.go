package main

// Renamed variables.  Contracts live in a separate file and name parameters,
// named results and locals of the function they annotate.  Renaming such a
// variable is a harmless edit of the code, but it would leave the contract
// unresolvable.  To keep the check quiet on such edits, /verif keeps a
// committed snapshot (contracts/locals.json) of the variables each function
// under contract declares, in source order with their types.  When the
// current tree declares the same variables except that some names differ, the
// old names used in the contract are mapped to the new ones: both lists are
// stripped of the names they share, and what is left must agree in number and,
// position by position, in type.  Anything else (variables added or removed,
// types changed) gives no mapping and the contract fails to translate as
// before.  The mapping only ever applies to a name that the function no
// longer declares, so it cannot change the meaning of a contract that still
// resolves.

import (
	"encoding/json"
	"go/ast"
	"go/types"
	"os"
	"path/filepath"
	"sort"
	"sync"

	"golang.org/x/tools/go/ssa"
)

type varRec struct {
	Name string `json:"name"`
	Type string `json:"type"`
}

// funcVars lists the variables a function's source declares (parameters,
// results, locals, including those of nested function literals), in source
// order.
func (p *Program) funcVars(fn *ssa.Function) []varRec {
	syn := fn.Syntax()
	if syn == nil || fn.Pkg == nil {
		return nil
	}
	var info *types.Info
	for _, pk := range p.pkgs {
		if pk.Types == fn.Pkg.Pkg {
			info = pk.TypesInfo
		}
	}
	if info == nil {
		return nil
	}
	type rec struct {
		pos int
		v   varRec
	}
	var out []rec
	qual := func(pk *types.Package) string { return pk.Name() }
	ast.Inspect(syn, func(n ast.Node) bool {
		id, ok := n.(*ast.Ident)
		if !ok || id.Name == "_" {
			return true
		}
		if obj, ok := info.Defs[id].(*types.Var); ok && obj != nil && !obj.IsField() {
			out = append(out, rec{int(id.Pos()), varRec{id.Name, types.TypeString(obj.Type(), qual)}})
		}
		return true
	})
	// the receiver of a method declaration
	sort.Slice(out, func(i, j int) bool { return out[i].pos < out[j].pos })
	res := make([]varRec, len(out))
	for i, r := range out {
		res[i] = r.v
	}
	return res
}

func localsPath(verif string) string { return filepath.Join(verif, "contracts", "locals.json") }

func loadLocalsSnapshot(verif string) map[string][]varRec {
	b, err := os.ReadFile(localsPath(verif))
	if err != nil {
		return nil
	}
	var m map[string][]varRec
	if json.Unmarshal(b, &m) != nil {
		return nil
	}
	return m
}

// renamePair: one variable of the snapshot and the variable of the current
// tree it is aligned with (Occ: 1-based occurrence among the declarations of
// the same name, in source order).
type renamePair struct {
	Old    string
	OldOcc int
	New    string
	NewOcc int
}

// alignVars aligns the snapshot with the current declarations: a longest
// common subsequence on (name, type) fixes the unchanged variables; the
// stretches in between must have equal length and, position by position,
// equal types, and are paired up as renames.  nil: no alignment.
func alignVars(snap, cur []varRec) []renamePair {
	n, m := len(snap), len(cur)
	if n == 0 || m == 0 {
		return nil
	}
	if n == m {
		same := true
		for i := range snap {
			if snap[i] != cur[i] {
				same = false
			}
		}
		if same {
			return nil
		}
	}
	// LCS table
	l := make([][]int, n+1)
	for i := range l {
		l[i] = make([]int, m+1)
	}
	for i := n - 1; i >= 0; i-- {
		for j := m - 1; j >= 0; j-- {
			if snap[i] == cur[j] {
				l[i][j] = l[i+1][j+1] + 1
			} else if l[i+1][j] >= l[i][j+1] {
				l[i][j] = l[i+1][j]
			} else {
				l[i][j] = l[i][j+1]
			}
		}
	}
	type ij struct{ i, j int }
	var al []ij
	i, j := 0, 0
	gi, gj := 0, 0 // start of the current gap
	// a stretch of unmatched variables is paired up only if both sides have
	// the same length and types; otherwise (variables added or removed
	// there) it yields no pairs
	flush := func(i1, j1 int) bool {
		if i1-gi != j1-gj {
			return true
		}
		for k := 0; k < i1-gi; k++ {
			if snap[gi+k].Type != cur[gj+k].Type {
				return true
			}
		}
		for k := 0; k < i1-gi; k++ {
			al = append(al, ij{gi + k, gj + k})
		}
		return true
	}
	for i < n && j < m {
		if snap[i] == cur[j] {
			if !flush(i, j) {
				return nil
			}
			al = append(al, ij{i, j})
			i++
			j++
			gi, gj = i, j
		} else if l[i+1][j] >= l[i][j+1] {
			i++
		} else {
			j++
		}
	}
	if !flush(n, m) {
		return nil
	}
	occS := make([]int, n)
	occC := make([]int, m)
	cs, cc := map[string]int{}, map[string]int{}
	for k, v := range snap {
		cs[v.Name]++
		occS[k] = cs[v.Name]
	}
	for k, v := range cur {
		cc[v.Name]++
		occC[k] = cc[v.Name]
	}
	var out []renamePair
	for _, a := range al {
		out = append(out, renamePair{snap[a.i].Name, occS[a.i], cur[a.j].Name, occC[a.j]})
	}
	return out
}

// renamesOf returns the alignment of a function's snapshot with its current
// declarations (nil if they are unchanged or cannot be aligned).
func (p *Program) renamesOf(fn *ssa.Function) []renamePair {
	if p.localsSnap == nil || fn == nil {
		return nil
	}
	p.renameMu.Lock()
	defer p.renameMu.Unlock()
	if m, ok := p.renameCache[fn]; ok {
		return m
	}
	if p.renameCache == nil {
		p.renameCache = map[*ssa.Function][]renamePair{}
	}
	var m []renamePair
	if snap, ok := p.localsSnap[p.funcKey(fn)]; ok {
		m = alignVars(snap, p.funcVars(fn))
	}
	p.renameCache[fn] = m
	return m
}

// renamedCandidates: the current names of the variables that were called
// name when the contracts were written (excluding name itself).
func (p *Program) renamedCandidates(fn *ssa.Function, name string) []string {
	var out []string
	seen := map[string]bool{}
	// a function literal also names the variables of its enclosing functions
	for f := fn; f != nil; f = f.Parent() {
		for _, pr := range p.renamesOf(f) {
			if pr.Old == name && pr.New != name && !seen[pr.New] {
				seen[pr.New] = true
				out = append(out, pr.New)
			}
		}
	}
	return out
}

// renamedLocal maps local(name, k) of the snapshot to the current (name, k).
func (p *Program) renamedLocal(fn *ssa.Function, name string, k int) (string, int) {
	for _, pr := range p.renamesOf(fn) {
		if pr.Old == name && pr.OldOcc == k {
			return pr.New, pr.NewOcc
		}
	}
	return name, k
}

// runLocalsSnapshot writes contracts/locals.json for every function under contract.
func runLocalsSnapshot(o *Options) int {
	p, err := loadAll(o)
	if err != nil {
		println(err.Error())
		return 2
	}
	m := map[string][]varRec{}
	for key := range p.contracts {
		fn := p.byName[key]
		if fn == nil {
			continue
		}
		if v := p.funcVars(fn); len(v) > 0 {
			m[key] = v
		}
	}
	b, _ := json.MarshalIndent(m, "", " ")
	if err := os.WriteFile(localsPath(o.verif), append(b, '\n'), 0o644); err != nil {
		println(err.Error())
		return 2
	}
	println("wrote", localsPath(o.verif), len(m), "functions")
	return 0
}

var _ sync.Mutex
