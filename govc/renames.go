package main

// Renamed variables.  Contracts live in a separate file and name parameters,
// named results and locals of the function they annotate.  Renaming such a
// variable is a harmless edit of the code, but it would leave the contract
// unresolvable.  To keep the check quiet on such edits, /verif keeps a
// committed snapshot (contracts/locals.json) of the variables each function
// under contract declares, in source order with their types.  When the
// current tree declares the same variables except that some names differ, the
// old names used in the contract are mapped to the new ones: both lists are
// stripped of the names they share, and what is left must agree in number and,
// position by position, in type.  Anything else (variables added or removed,
// types changed) gives no mapping and the contract fails to translate as
// before.  The mapping only ever applies to a name that the function no
// longer declares, so it cannot change the meaning of a contract that still
// resolves.

import (
	"encoding/json"
	"go/ast"
	"go/types"
	"os"
	"path/filepath"
	"sort"
	"sync"

	"golang.org/x/tools/go/ssa"
)

type varRec struct {
	Name string `json:"name"`
	Type string `json:"type"`
}

// funcVars lists the variables a function's source declares (parameters,
// results, locals, including those of nested function literals), in source
// order.
func (p *Program) funcVars(fn *ssa.Function) []varRec {
	syn := fn.Syntax()
	if syn == nil || fn.Pkg == nil {
		return nil
	}
	var info *types.Info
	for _, pk := range p.pkgs {
		if pk.Types == fn.Pkg.Pkg {
			info = pk.TypesInfo
		}
	}
	if info == nil {
		return nil
	}
	type rec struct {
		pos int
		v   varRec
	}
	var out []rec
	qual := func(pk *types.Package) string { return pk.Name() }
	ast.Inspect(syn, func(n ast.Node) bool {
		id, ok := n.(*ast.Ident)
		if !ok || id.Name == "_" {
			return true
		}
		if obj, ok := info.Defs[id].(*types.Var); ok && obj != nil && !obj.IsField() {
			out = append(out, rec{int(id.Pos()), varRec{id.Name, types.TypeString(obj.Type(), qual)}})
		}
		return true
	})
	// the receiver of a method declaration
	sort.Slice(out, func(i, j int) bool { return out[i].pos < out[j].pos })
	res := make([]varRec, len(out))
	for i, r := range out {
		res[i] = r.v
	}
	return res
}

func localsPath(verif string) string { return filepath.Join(verif, "contracts", "locals.json") }

func loadLocalsSnapshot(verif string) map[string][]varRec {
	b, err := os.ReadFile(localsPath(verif))
	if err != nil {
		return nil
	}
	var m map[string][]varRec
	if json.Unmarshal(b, &m) != nil {
		return nil
	}
	return m
}

// renameMap aligns the snapshot with the current declarations.
func renameMap(snap, cur []varRec) map[string]string {
	if len(snap) == 0 {
		return nil
	}
	cnt := map[string]int{}
	for _, v := range cur {
		cnt[v.Name]++
	}
	scnt := map[string]int{}
	for _, v := range snap {
		scnt[v.Name]++
	}
	common := map[string]int{}
	for n, k := range scnt {
		if cnt[n] < k {
			k = cnt[n]
		}
		common[n] = k
	}
	strip := func(l []varRec) []varRec {
		seen := map[string]int{}
		var r []varRec
		for _, v := range l {
			if seen[v.Name] < common[v.Name] {
				seen[v.Name]++
				continue
			}
			r = append(r, v)
		}
		return r
	}
	s, c := strip(snap), strip(cur)
	if len(s) == 0 || len(s) != len(c) {
		return nil
	}
	m := map[string]string{}
	for i := range s {
		if s[i].Type != c[i].Type {
			return nil
		}
		if o, ok := m[s[i].Name]; ok && o != c[i].Name {
			return nil
		}
		if cnt[s[i].Name] > 0 {
			// the old name is still declared somewhere: ambiguous
			return nil
		}
		m[s[i].Name] = c[i].Name
	}
	return m
}

// renamesOf returns the old-name -> new-name map of a function (nil if the
// declarations are unchanged or cannot be aligned).
func (p *Program) renamesOf(fn *ssa.Function) map[string]string {
	if p.localsSnap == nil || fn == nil {
		return nil
	}
	p.renameMu.Lock()
	defer p.renameMu.Unlock()
	if m, ok := p.renameCache[fn]; ok {
		return m
	}
	if p.renameCache == nil {
		p.renameCache = map[*ssa.Function]map[string]string{}
	}
	var m map[string]string
	if snap, ok := p.localsSnap[p.funcKey(fn)]; ok {
		m = renameMap(snap, p.funcVars(fn))
	}
	p.renameCache[fn] = m
	return m
}

// runLocalsSnapshot writes contracts/locals.json for every function under contract.
func runLocalsSnapshot(o *Options) int {
	p, err := loadAll(o)
	if err != nil {
		println(err.Error())
		return 2
	}
	m := map[string][]varRec{}
	for key := range p.contracts {
		fn := p.byName[key]
		if fn == nil {
			continue
		}
		if v := p.funcVars(fn); len(v) > 0 {
			m[key] = v
		}
	}
	b, _ := json.MarshalIndent(m, "", " ")
	if err := os.WriteFile(localsPath(o.verif), append(b, '\n'), 0o644); err != nil {
		println(err.Error())
		return 2
	}
	println("wrote", localsPath(o.verif), len(m), "functions")
	return 0
}

var _ sync.Mutex
