package main

// Calls: Go builtins, callee contracts, inlining, trusted models of
// standard-library functions, havoc of everything else.

import (
	"fmt"
	"go/token"
	"go/types"
	"math/big"
	"sort"
	"strings"

	"golang.org/x/tools/go/ssa"
)

func newBig(v int64) *big.Int { return big.NewInt(v) }

func (x *Exec) call(st *State, cc *ssa.CallCommon, in ssa.Instruction, pos token.Pos) Val {
	var args []Val
	for _, a := range cc.Args {
		args = append(args, x.val(st, a))
	}
	var fv Val
	if cc.Value != nil {
		if _, isB := cc.Value.(*ssa.Builtin); !isB {
			fv = x.val(st, cc.Value)
		}
	}
	return x.callCommon(st, cc, in, pos, args, fv, false)
}

func (x *Exec) callCommon(st *State, cc *ssa.CallCommon, in ssa.Instruction, pos token.Pos, args []Val, fv Val, deferred bool) Val {
	resT := cc.Signature().Results()
	x.curCall = cc
	if b, ok := cc.Value.(*ssa.Builtin); ok {
		return x.builtinCall(st, b, cc, args, pos)
	}
	if cc.IsInvoke() {
		return x.invoke(st, cc, fv, args, pos)
	}
	// static callee?
	if fv.Fn != nil {
		if fn, ok := fv.Fn.Fn.(*ssa.Function); ok && fn != nil {
			return x.staticCall(st, fn, fv.Fn.Binds, args, pos, resT)
		}
	}
	// dynamic call through a function value
	return x.dynamicCall(st, cc, fv, args, pos)
}

func (x *Exec) results(st *State, resT *types.Tuple, prefix string) Val {
	c := x.c
	var tup []Val
	for i := 0; i < resT.Len(); i++ {
		t := resT.At(i).Type()
		n := c.freshConst(prefix, t)
		c.assume(c.wfAt(t, n, c.alloc(st)))
		tup = append(tup, Val{T: t, S: n})
	}
	switch len(tup) {
	case 0:
		return Val{T: resT}
	case 1:
		return tup[0]
	}
	return Val{T: resT, Tup: tup}
}

func pack(resT *types.Tuple, vals []Val) Val {
	switch len(vals) {
	case 0:
		return Val{T: resT}
	case 1:
		return vals[0]
	}
	return Val{T: resT, Tup: vals}
}

// ---------------------------------------------------------------------
// Go builtins

func (x *Exec) builtinCall(st *State, b *ssa.Builtin, cc *ssa.CallCommon, args []Val, pos token.Pos) Val {
	c := x.c
	intT := types.Typ[types.Int]
	switch b.Name() {
	case "len":
		a := args[0]
		switch a.T.Underlying().(type) {
		case *types.Slice:
			return Val{T: intT, S: c.fromIdx(intT, sLen(a.S))}
		case *types.Basic:
			return Val{T: intT, S: c.fromIdx(intT, sx("gstr_len", a.S))}
		case *types.Map:
			return Val{T: intT, S: c.fromIdx(intT, c.def("mlen", "Int", x.mapLen(st, a.T, a.S)))}
		case *types.Array:
			return Val{T: intT, S: c.intConst(intT, newBig(a.T.Underlying().(*types.Array).Len()))}
		case *types.Pointer:
			at := a.T.Underlying().(*types.Pointer).Elem().Underlying().(*types.Array)
			return Val{T: intT, S: c.intConst(intT, newBig(at.Len()))}
		}
	case "cap":
		a := args[0]
		if _, ok := a.T.Underlying().(*types.Slice); ok {
			return Val{T: intT, S: c.fromIdx(intT, sCap(a.S))}
		}
	case "append":
		return x.appendCall(st, cc, args, pos)
	case "copy":
		return x.copyCall(st, args, pos)
	case "delete":
		mt := args[0].T.Underlying().(*types.Map)
		k := args[1]
		ks := k.S
		if isIface(mt.Key()) && !isIface(k.T) {
			ks = x.makeIface(k, mt.Key()).S
		}
		x.mapDelete(st, args[0].T, args[0].S, ks)
		return Val{}
	case "min", "max":
		op := token.LSS
		if b.Name() == "max" {
			op = token.GTR
		}
		cur := args[0]
		for _, a := range args[1:] {
			cur = Val{T: cur.T, S: ite(c.compare(op, cur.T, a.S, cur.S), a.S, cur.S)}
		}
		return cur
	case "ssa:wrapnilchk":
		return args[0]
	case "ssa:deferstack":
		return Val{T: cc.Signature().Results().At(0).Type(), Undef: true}
	case "print", "println":
		return Val{}
	}
	panic(unsupported("builtin " + b.Name()))
}

// appendCall models append(s, elems...) with Go's growth rule.  The new
// backing array (when one is allocated) keeps the offset of the old slice,
// which is unobservable and avoids a quantified copy.
func (x *Exec) appendCall(st *State, cc *ssa.CallCommon, args []Val, pos token.Pos) Val {
	c := x.c
	s := args[0]
	e := args[1]
	et := s.T.Underlying().(*types.Slice).Elem()
	r, _ := c.elemRegion(et)
	h := c.region(st, r)
	// Source elements: either []T or string (append([]byte, string...))
	var n string
	var srcAt func(i string) string
	single := ""
	if isString(e.T) {
		n = sx("gstr_len", e.S)
		srcAt = func(i string) string { return sx("gstr_at", e.S, i) }
	} else {
		es := c.resolve(e.S)
		n = sLen(es)
		srcArr := c.def("src", c.regions[r][len("(Array Int "):len(c.regions[r])-1], sx("select", h, sRef(es)))
		soff := sOff(es)
		srcAt = func(i string) string { return sx("select", srcArr, sx("+", soff, i)) }
		if n == "1" {
			single = srcAt("0")
		}
	}
	if single != "" {
		if vi := x.valueInvFor(et); vi != nil {
			// the element was stored into the one-element varargs array just before (checked there)
			_ = vi
		}
	}
	oldArr := c.def("old", c.regions[r][len("(Array Int "):len(c.regions[r])-1], sx("select", h, sRef(s.S)))
	off, ln, cp := sOff(s.S), sLen(s.S), sCap(s.S)
	newLen := c.def("nl", "Int", sx("+", ln, n))
	x.assumeG(st, sx("<=", newLen, maxObj))
	fits := c.def("fits", "Bool", sx("<=", newLen, cp))
	// new contents
	var newArr string
	if single != "" {
		newArr = sx("store", oldArr, sx("+", off, ln), single)
	} else if n == "0" {
		newArr = oldArr
	} else {
		newArr = c.freshSort("app", c.regions[r][len("(Array Int "):len(c.regions[r])-1])
		c.assumeDef(fmt.Sprintf("(forall ((i Int)) (! (= (select %s i) (ite (and (<= (+ %s %s) i) (< i (+ %s %s))) %s (select %s i))) :pattern ((select %s i))))",
			newArr, off, ln, off, newLen, srcAt(sx("-", "i", sx("+", off, ln))), oldArr, newArr))
	}
	newArr = c.def("arr", c.regions[r][len("(Array Int "):len(c.regions[r])-1], newArr)
	fresh := c.newRef(st) // reference reserved even when not used (harmless)
	ncap := c.freshSort("ncap", "Int")
	c.assume(and(sx("<=", newLen, ncap), sx("<=", sx("+", off, ncap), maxObj)))
	ref := ite(fits, sRef(s.S), fresh)
	refN := c.def("aref", "Int", ref)
	h2 := sx("store", h, refN, newArr)
	// appending nothing to a nil slice yields nil; model: if n == 0 the slice is returned unchanged
	c.setRegion(st, r, ite(eq(n, "0"), h, h2))
	res := mkSlice(refN, off, newLen, ite(fits, cp, ncap))
	res = ite(eq(n, "0"), s.S, res)
	return Val{T: s.T, S: c.def("sl", "Slice", res)}
}

func (x *Exec) copyCall(st *State, args []Val, pos token.Pos) Val {
	c := x.c
	dst, src := args[0], args[1]
	et := dst.T.Underlying().(*types.Slice).Elem()
	r, _ := c.elemRegion(et)
	h := c.region(st, r)
	asort := c.regions[r][len("(Array Int ") : len(c.regions[r])-1]
	var n string
	var srcAt func(i string) string
	if isString(src.T) {
		sl := sx("gstr_len", src.S)
		n = ite(sx("<", sLen(dst.S), sl), sLen(dst.S), sl)
		srcAt = func(i string) string { return sx("gstr_at", src.S, i) }
	} else {
		n = ite(sx("<", sLen(dst.S), sLen(src.S)), sLen(dst.S), sLen(src.S))
		srcArr := c.def("src", asort, sx("select", h, sRef(src.S)))
		soff := sOff(src.S)
		srcAt = func(i string) string { return sx("select", srcArr, sx("+", soff, i)) }
	}
	nn := c.def("n", "Int", n)
	dArr := c.def("dst", asort, sx("select", h, sRef(dst.S)))
	newArr := c.freshSort("cpy", asort)
	doff := sOff(dst.S)
	c.assumeDef(fmt.Sprintf("(forall ((i Int)) (! (= (select %s i) (ite (and (<= %s i) (< i (+ %s %s))) %s (select %s i))) :pattern ((select %s i))))",
		newArr, doff, doff, nn, srcAt(sx("-", "i", doff)), dArr, newArr))
	c.setRegion(st, r, ite(eq(nn, "0"), h, sx("store", h, sRef(dst.S), newArr)))
	intT := types.Typ[types.Int]
	return Val{T: intT, S: c.fromIdx(intT, nn)}
}

// ---------------------------------------------------------------------
// static calls

func (x *Exec) staticCall(st *State, fn *ssa.Function, binds []Val, args []Val, pos token.Pos, resT *types.Tuple) Val {
	p := x.p
	inMod := fn.Pkg != nil && p.inModule(fn.Pkg.Pkg.Path()) || (fn.Parent() != nil)
	if fn.Pkg == nil && fn.Parent() == nil && fn.Origin() != nil {
		// instantiated generic from another package (e.g. maps.Clone[...])
		inMod = false
	}
	if !inMod {
		return x.externalCall(st, fn, args, pos, resT)
	}
	key := p.funcKey(fn)
	fc := p.contracts[key]
	isGhost := p.isGhostFn(fn)
	if (fc != nil && fc.Inline) || isGhost || (fc == nil && x.ghost) || (fc == nil && fn.Parent() != nil && x.autoInline(fn)) {
		if x.depth > 12 {
			panic(unsupported("inline depth exceeded at " + key))
		}
		return x.inlineCall(st, fn, binds, args, resT, isGhost || x.ghost)
	}
	x.havocBoundCells(st, fn, binds)
	if fc != nil {
		fc.Used = true
		return x.applyContract(st, fc, fn, binds, args, pos, resT, key)
	}
	// no contract: havoc the callee's computed write set, results unknown
	ms := p.modSet(x.c, fn)
	pre := st.clone()
	x.havocMods(st, ms)
	x.c.note("callee without contract havocked: " + key)
	if res, det := x.detResults(pre, fn, args, resT, ms); det {
		return res
	}
	return x.results(st, resT, "r_"+san(fn.Name()))
}

// havocBoundCells: a closure that is not inlined may assign the private
// variables it captured.
func (x *Exec) havocBoundCells(st *State, fn *ssa.Function, binds []Val) {
	for _, b := range binds {
		if b.P != nil && b.P.Kind == pCell && !isRegionKey(b.P.Cell) {
			old, ok := st.cells[b.P.Cell]
			if !ok || old.S == "" {
				continue
			}
			n := x.c.freshConst("cap", b.P.BaseT)
			x.c.assume(x.c.wfAt(b.P.BaseT, n, x.c.alloc(st)))
			st.cells[b.P.Cell] = Val{T: b.P.BaseT, S: n}
		}
	}
}

// autoInline: deferred closures and trivial local closures without loops.
func (x *Exec) autoInline(fn *ssa.Function) bool {
	return deferOnly(fn) || confinedClosure(fn)
}

var confinedCache = map[*ssa.Function]bool{}

// confinedClosure: a loop-free anonymous function that is only ever called
// directly by its enclosing function (possibly through a local variable).
// It is inlined at its call sites; its obligations are generated there.
func confinedClosure(fn *ssa.Function) bool {
	if v, ok := confinedCache[fn]; ok {
		return v
	}
	res := func() bool {
		par := fn.Parent()
		if par == nil || len(fn.Blocks) == 0 || len(findLoops(fn)) > 0 {
			return false
		}
		found := false
		for _, b := range par.Blocks {
			for _, in := range b.Instrs {
				mc, ok := in.(*ssa.MakeClosure)
				if !ok || mc.Fn != ssa.Value(fn) {
					continue
				}
				found = true
				if !closureConfined(mc) {
					return false
				}
			}
		}
		if !found {
			return false
		}
		// no (mutual) recursion through other closures: callees must not call back
		for _, b := range fn.Blocks {
			for _, in := range b.Instrs {
				if c, ok := in.(*ssa.Call); ok {
					if callee := resolveCallee(c.Call.Value); callee == fn {
						return false
					}
				}
			}
		}
		return true
	}()
	confinedCache[fn] = res
	return res
}

// deferOnly: an anonymous function whose only use is a defer statement.
func deferOnly(fn *ssa.Function) bool {
	par := fn.Parent()
	if par == nil {
		return false
	}
	used := false
	for _, b := range par.Blocks {
		for _, in := range b.Instrs {
			mc, ok := in.(*ssa.MakeClosure)
			if !ok || mc.Fn != ssa.Value(fn) || mc.Referrers() == nil {
				continue
			}
			for _, r := range *mc.Referrers() {
				switch r := r.(type) {
				case *ssa.Defer:
					used = true
				case *ssa.DebugRef:
				default:
					_ = r
					return false
				}
			}
		}
	}
	return used
}

func (p *Program) isGhostFn(fn *ssa.Function) bool {
	root := fn
	for root.Parent() != nil {
		root = root.Parent()
	}
	if root.Syntax() == nil {
		return false
	}
	file := p.fset.Position(root.Syntax().Pos()).Filename
	return strings.HasSuffix(file, "_verif.go")
}

func (x *Exec) havocMods(st *State, ms *ModSet) {
	if ms.Locks {
		// the callee may have locked or unlocked the mutex
		st.cells["$held"] = Val{S: x.c.freshSort("held", "Bool")}
	}
	if ms.All {
		x.c.havocAll(st)
		if ms.Writes {
			x.c.havocWfault(st)
			x.c.havocBuflen(st)
		}
		return
	}
	if ms.Writes {
		x.c.havocWfault(st)
		x.c.havocBuflen(st)
	}
	if ms.Reads {
		// the callee may have read input: the ghost tape cursor moves forward
		x.c.havocTpos(st, x.c.region(st, "$tpos"))
		x.c.havocRfault(st)
	}
	if ms.Writes {
		x.c.havocOpos(st)
	}
	rs := make([]string, 0, len(ms.Regions))
	for r := range ms.Regions {
		rs = append(rs, r)
	}
	sort.Strings(rs)
	for _, r := range rs {
		if _, ok := x.c.regions[r]; !ok && r != "$alloc" {
			continue // region never mentioned in this query: irrelevant
		}
		x.c.havocRegion(st, r)
	}
}

// inlineCall symbolically executes the callee body in the caller's state.
func (x *Exec) inlineCall(st *State, fn *ssa.Function, binds []Val, args []Val, resT *types.Tuple, ghost bool) Val {
	savedGuard := x.c.curGuard
	defer func() { x.c.curGuard = savedGuard }()
	if ghost && x.p.isGhostFn(fn) && (isRecursive(fn) || x.p.namedGhost(fn)) {
		return x.recApp(st, fn, args, resT)
	}
	inlineCounter++
	sub := &Exec{v: x.v, c: x.c, p: x.p, fn: fn, key: x.p.funcKey(fn), fc: x.p.contracts[x.p.funcKey(fn)],
		vals: map[ssa.Value]Val{}, prefix: fmt.Sprintf("%s/i%d", x.prefix, inlineCounter), ghost: ghost, depth: x.depth + 1,
		inline: true, props: x.props, parent: x, params: map[string]Val{}, freeVals: map[string]Val{}}
	if ghost {
		sub.fc = nil
	}
	for i, fvv := range fn.FreeVars {
		if i < len(binds) {
			sub.freeVals[fvv.Name()] = binds[i]
		}
	}
	for i, pr := range fn.Params {
		sub.vals[pr] = args[i]
		sub.params[pr.Name()] = args[i]
	}
	sub.entry = st.clone()
	sub.run(st.clone())
	if len(sub.rets) == 0 {
		// callee never returns normally on this path
		st.guard = "false"
		return x.results(st, resT, "never")
	}
	var edges []edgeState
	for i, r := range sub.rets {
		edges = append(edges, edgeState{from: i, st: r.st})
	}
	m := x.c.merge(edges)
	// drop the callee's locals
	for k := range m.cells {
		if strings.HasPrefix(k, "L:"+sub.prefix+":") {
			delete(m.cells, k)
		}
	}
	var out []Val
	for i := 0; i < resT.Len(); i++ {
		var vals []Val
		var gs []string
		for _, r := range sub.rets {
			vals = append(vals, r.results[i])
			gs = append(gs, r.st.guard)
		}
		mv := x.c.mergeVals("L:ret", vals, gs)
		mv.T = resT.At(i).Type()
		out = append(out, mv)
	}
	*st = *m
	return pack(resT, out)
}

var inlineCounter int

// applyContract: assert requires, havoc the write set, assume ensures.
func (x *Exec) applyContract(st *State, fc *FuncContract, fn *ssa.Function, binds []Val, args []Val, pos token.Pos, resT *types.Tuple, key string) Val {
	c := x.c
	vars := map[string]Val{}
	for i, pr := range fn.Params {
		vars[pr.Name()] = args[i]
	}
	free := map[string]Val{}
	for i, fvv := range fn.FreeVars {
		if i < len(binds) {
			free[fvv.Name()] = binds[i]
		}
	}
	env := &Env{x: x, c: c, st: st, old: st, vars: vars, free: free, fn: fn, pos: fn.Pos(), ghostOnly: true}
	for i, rq := range fc.Requires {
		goal := x.evalClause(env, rq)
		tag := fmt.Sprintf("%s.requires%d", key, i+1)
		if len(rq.Tags) > 0 {
			tag = strings.Join(rq.Tags, ",") + ":" + tag
		}
		x.oblige(st, "call-requires", pos, goal, tag, nil)
	}
	pre := st.clone()
	if fc.Pure {
		// result is a function of the arguments only
		var as []string
		var sorts []string
		for _, a := range args {
			as = append(as, a.S)
			sorts = append(sorts, c.sortOf(a.T))
		}
		var out []Val
		for i := 0; i < resT.Len(); i++ {
			t := resT.At(i).Type()
			f := fmt.Sprintf("pure_%s_%d", san(key), i)
			c.declareFun(f, sorts, c.sortOf(t))
			term := sx(f, as...)
			if len(as) == 0 {
				term = f
			}
			c.assume(c.wfAt(t, term, c.alloc(st)))
			out = append(out, Val{T: t, S: term})
		}
		res := pack(resT, out)
		x.assumeEnsures(st, pre, fc, fn, vars, free, res, resT)
		return res
	}
	ms := x.p.modSet(c, fn)
	x.havocMods(st, ms)
	res, det := x.detResults(pre, fn, args, resT, ms)
	if !det {
		res = x.results(st, resT, "r_"+san(fn.Name()))
	}
	x.assumeEnsures(st, pre, fc, fn, vars, free, res, resT)
	return res
}

func (x *Exec) assumeEnsures(st, pre *State, fc *FuncContract, fn *ssa.Function, vars, free map[string]Val, res Val, resT *types.Tuple) {
	v2 := map[string]Val{}
	for k, v := range vars {
		v2[k] = v
	}
	bindResults(v2, fn.Signature, res)
	env := &Env{x: x, c: x.c, st: st, old: pre, vars: v2, oldVars: vars, free: free, fn: fn, pos: fn.Pos(), ghostOnly: true}
	for _, en := range fc.Ensures {
		if en.Opaque && !x.revealed(en) {
			continue
		}
		fact := x.evalClause(env, en)
		x.c.curTag = strings.Join(en.Tags, ",")
		x.assumeG(st, fact)
		x.c.curTag = ""
	}
}

// revealed: the function being verified asked for this opaque callee clause.
func (x *Exec) revealed(en *Clause) bool {
	if x.fc == nil {
		return false
	}
	for _, t := range en.Tags {
		if x.fc.Reveal[t] {
			return true
		}
	}
	return false
}

func bindResults(vars map[string]Val, sig *types.Signature, res Val) {
	rt := sig.Results()
	var vals []Val
	switch {
	case rt.Len() == 0:
	case rt.Len() == 1:
		vals = []Val{res}
	default:
		vals = res.Tup
	}
	for i := 0; i < rt.Len() && i < len(vals); i++ {
		if n := rt.At(i).Name(); n != "" && n != "_" {
			vars[n] = vals[i]
		}
		vars[fmt.Sprintf("result%d", i)] = vals[i]
	}
	if rt.Len() == 1 && len(vals) == 1 {
		vars["result"] = vals[0]
	}
}

// ---------------------------------------------------------------------
// dynamic calls

func (x *Exec) dynamicCall(st *State, cc *ssa.CallCommon, fv Val, args []Val, pos token.Pos) Val {
	resT := cc.Signature().Results()
	x.nilCheck(st, fv.S, pos)
	// type contract of a named function type (e.g. postscript.builtin)
	if nt, ok := cc.Value.Type().(*types.Named); ok && nt.Obj().Pkg() != nil {
		key := nt.Obj().Pkg().Name() + ".type:" + nt.Obj().Name()
		if fc := x.p.contracts[key]; fc != nil {
			fc.Used = true
			vars := map[string]Val{}
			for i, n := range fc.ParamNames {
				if i < len(args) {
					vars[n] = args[i]
				}
			}
			scopeFn := x.fn
			env := &Env{x: x, c: x.c, st: st, old: st, vars: vars, fn: scopeFn, pos: token.NoPos, ghostOnly: true}
			for i, rq := range fc.Requires {
				x.oblige(st, "call-requires", pos, x.evalClause(env, rq), fmt.Sprintf("%s.requires%d", key, i+1), nil)
			}
			pre := st.clone()
			x.c.havocAll(st)
			res := x.results(st, resT, "dyn")
			v2 := map[string]Val{}
			for k, v := range vars {
				v2[k] = v
			}
			bindResults(v2, cc.Signature(), res)
			env2 := &Env{x: x, c: x.c, st: st, old: pre, vars: v2, oldVars: vars, fn: scopeFn, pos: token.NoPos, ghostOnly: true}
			for _, en := range fc.Ensures {
				x.assumeG(st, x.evalClause(env2, en))
			}
			x.c.note("dynamic call through " + key + ": type contract assumed; every function stored as such a value is checked to refine it")
			return res
		}
	}
	x.c.havocAll(st)
	x.c.note("dynamic call havocs the whole heap")
	return x.results(st, resT, "dyn")
}

func (x *Exec) invoke(st *State, cc *ssa.CallCommon, recv Val, args []Val, pos token.Pos) Val {
	c := x.c
	resT := cc.Signature().Results()
	name := cc.Method.FullName()
	switch name {
	case "(io.Reader).Read":
		// trusted interface contract: 0 <= n <= len(p); bytes p[:n] are overwritten; nothing else of ours changes
		x.oblige(st, "nil", pos, not(eq(recv.S, "I_nil")), "", nil)
		p := args[0]
		r, _ := c.elemRegion(types.Typ[types.Uint8])
		h := c.region(st, r)
		asort := "(Array Int " + c.intSort(8) + ")"
		old := c.def("old", asort, sx("select", h, sRef(p.S)))
		na := c.freshSort("rd", asort)
		n := c.freshSort("n", "Int")
		c.assume(and(sx("<=", "0", n), sx("<=", n, sLen(p.S))))
		c.assumeDef(fmt.Sprintf("(forall ((i Int)) (! (=> (not (and (<= %s i) (< i (+ %s %s)))) (= (select %s i) (select %s i))) :pattern ((select %s i))))",
			sOff(p.S), sOff(p.S), n, na, old, na))
		c.setRegion(st, r, ite(eq(sRef(p.S), "0"), h, sx("store", h, sRef(p.S), na)))
		c.havocRegion(st, "$alloc")
		x.tapeDeliver(st, na, sOff(p.S), n)
		errv := c.freshSort("err", "Iface")
		// ghost: a read error other than io.EOF is remembered (C13)
		x.noteReadFault(st, errv, pos, false)
		c.note("trusted: io.Reader.Read obeys its interface contract (0<=n<=len(p), writes only p[:n]) and does not touch the caller's private state")
		intT := types.Typ[types.Int]
		return Val{T: resT, Tup: []Val{{T: intT, S: c.fromIdx(intT, n)}, {T: resT.At(1).Type(), S: errv}}}
	case "(io.Writer).Write":
		x.oblige(st, "nil", pos, not(eq(recv.S, "I_nil")), "", nil)
		p := args[0]
		n := c.freshSort("n", "Int")
		errv := c.freshSort("err", "Iface")
		c.assume(and(sx("<=", "0", n), sx("<=", n, sLen(p.S))))
		c.assume(implies(sx("<", n, sLen(p.S)), not(eq(errv, "I_nil"))))
		c.havocRegion(st, "$alloc")
		// ghost output tape: it records the bytes accepted by the observed
		// writer (obsConst).  A write to that writer appends its n accepted
		// bytes; a write to a standard-library leaf writer (bytes.Buffer,
		// strings.Builder) other than the observed one leaves the tape alone;
		// any other writer may forward to the observed one: the tape grows by
		// an unknown amount.
		{
			c.declareFun("gotape", []string{"Int"}, c.intSort(8))
			r8, _ := c.elemRegion(types.Typ[types.Uint8])
			arr := sx("select", c.region(st, r8), sRef(p.S))
			opos := c.region(st, "$opos")
			isObs := c.def("isobs", "Bool", eq(recv.S, c.obsConst()))
			leaf := c.def("leaf", "Bool", c.leafWriter(recv.S))
			fwd := c.freshSort("opos", "Int") // after forwarding by an unknown writer
			c.assume(and(sx("<=", opos, fwd), sx("<=", fwd, tposMax)))
			np := c.def("opos", "Int", ite(isObs, sx("+", opos, n), ite(leaf, opos, fwd)))
			// (guarded by the path: two sibling paths may write different bytes at the same position)
			c.assumeOnPath(implies(isObs, fmt.Sprintf("(forall ((j Int)) (! (=> (and (<= %s j) (< j (+ %s %s))) (= (gotape j) (select %s (+ %s (- j %s))))) :pattern ((gotape j))))", opos, opos, n, arr, sOff(p.S), opos)))
			c.assume(sx("<=", np, tposMax))
			st.cells["$opos"] = Val{S: np}
			// a bytes.Buffer grows by what it accepted
			if isBuf, ref := c.isBytesBuffer(recv.S); isBuf != "false" {
				bl := c.region(st, "$buflen")
				st.cells["$buflen"] = Val{S: c.def("buflen", "(Array Int Int)", ite(isBuf, sx("store", bl, ref, sx("+", sx("select", bl, ref), n)), bl))}
			}
			c.note("ghost output tape: otape(k) is the k-th byte accepted by the observed writer obs() (an arbitrary but fixed io.Writer value), opos() the number accepted so far (fewer than 2^62); writers other than obs(), bytes.Buffer and strings.Builder may forward to it")
		}
		// ghost: a failed write is remembered (C13)
		st.cells["$wfault"] = Val{S: c.def("wf", "Bool", or(c.region(st, "$wfault"), not(eq(errv, "I_nil"))))}
		c.note("trusted: io.Writer.Write obeys its interface contract (0<=n<=len(p), n<len(p) => err!=nil), does not modify p or the caller's private state")
		intT := types.Typ[types.Int]
		return Val{T: resT, Tup: []Val{{T: intT, S: c.fromIdx(intT, n)}, {T: resT.At(1).Type(), S: errv}}}
	case "(error).Error":
		c.havocRegion(st, "$alloc")
		return x.results(st, resT, "errstr")
	case "(io.Seeker).Seek":
		// trusted interface contract: repositions the stream; reads nothing,
		// writes nothing and does not touch the caller's private state
		x.oblige(st, "nil", pos, not(eq(recv.S, "I_nil")), "", nil)
		c.havocRegion(st, "$alloc")
		c.note("trusted: io.Seeker.Seek only repositions the stream (no read, no write, caller's state untouched)")
		return x.results(st, resT, "seek")
	}
	c.havocAll(st)
	c.note("interface method call havocs the whole heap: " + name)
	return x.results(st, resT, "inv")
}

// ---------------------------------------------------------------------
// functions outside the module

func (x *Exec) externalCall(st *State, fn *ssa.Function, args []Val, pos token.Pos, resT *types.Tuple) Val {
	c := x.c
	key := extKey(fn)
	if fn.Origin() != nil {
		key = extKey(fn.Origin())
	}
	if m, ok := intrinsics[key]; ok {
		return m(x, st, fn, args, pos, resT)
	}
	if fc, ok := x.p.extSpecs[key]; ok {
		fc.Used = true
		vars := map[string]Val{}
		sig := fn.Signature
		for i := 0; i < sig.Params().Len() && i < len(args); i++ {
			vars[sig.Params().At(i).Name()] = args[i]
		}
		env := &Env{x: x, c: c, st: st, old: st, vars: vars, fn: fn, ghostOnly: true}
		for i, rq := range fc.Requires {
			x.oblige(st, "call-requires", pos, x.evalClause(env, rq), fmt.Sprintf("%s.requires%d", key, i+1), nil)
		}
		pre := st.clone()
		for _, m := range fc.Modifies {
			if m == "all" {
				c.havocAll(st)
			} else if _, ok := c.regions[m]; ok {
				c.havocRegion(st, m)
			}
		}
		c.havocRegion(st, "$alloc")
		res := x.results(st, resT, "x_"+san(fn.Name()))
		x.assumeEnsures(st, pre, fc, fn, vars, nil, res, resT)
		c.note("trusted contract: " + key)
		return res
	}
	// small loop-free functions of the geometry package the module depends on
	// are executed from their source (module cache) instead of being trusted
	if fn.Pkg != nil && strings.HasPrefix(fn.Pkg.Pkg.Path(), "seehuhn.de/go/geom/") && len(fn.Blocks) > 0 && len(findLoops(fn)) == 0 && x.depth < 8 {
		c.note("inlined from source (module cache): " + key)
		return x.inlineCall(st, fn, nil, args, resT, x.ghost)
	}
	// default for unknown external functions
	callback := false
	for _, a := range args {
		switch a.T.Underlying().(type) {
		case *types.Interface, *types.Signature:
			callback = true
		case *types.Pointer:
			callback = true
		}
	}
	if callback {
		c.havocAll(st)
		c.note("external call with interface/function/pointer argument havocs the whole heap: " + key)
	} else {
		for _, a := range args {
			if sl, ok := a.T.Underlying().(*types.Slice); ok {
				r, _ := c.elemRegion(sl.Elem())
				c.havocRegion(st, r)
			}
		}
		c.havocRegion(st, "$alloc")
		c.note("external call assumed not to panic and to touch only its slice arguments: " + key)
	}
	return x.results(st, resT, "x_"+san(fn.Name()))
}

// tapeDeliver: ghost input tape.  gtape is the sequence of all bytes that the
// underlying readers deliver, in the order of delivery; $tpos is the number of
// bytes delivered so far.  A read that returns n bytes delivers gtape[tpos,
// tpos+n) and advances the cursor.  (A history variable: any actual behaviour
// of the readers is described by some gtape.)
func (x *Exec) tapeDeliver(st *State, arr, off, n string) {
	c := x.c
	c.declareFun("gtape", []string{"Int"}, c.intSort(8))
	tp := c.region(st, "$tpos")
	c.assumeDef(fmt.Sprintf("(forall ((i Int)) (! (=> (and (<= 0 i) (< i %s)) (= (select %s (+ %s i)) (gtape (+ %s i)))) :pattern ((gtape (+ %s i)))))", n, arr, off, tp, tp))
	c.assumeDef(fmt.Sprintf("(forall ((i Int)) (! (=> (and (<= %s i) (< i (+ %s %s))) (= (select %s i) (gtape (+ %s (- i %s))))) :pattern ((select %s i))))", off, off, n, arr, tp, off, arr))
	st.cells["$tpos"] = Val{S: c.def("tpos", "Int", sx("+", tp, n))}
	c.assume(and(sx("<=", "0", tp), sx("<=", sx("+", tp, n), tposMax)))
	c.note("ghost input tape: fewer than 2^62 input bytes are delivered in total")
}

// noteReadFault: rfault' = rfault or (err is neither nil nor io.EOF [nor
// io.ErrUnexpectedEOF for io.ReadFull]).
func (x *Exec) noteReadFault(st *State, errv string, pos token.Pos, full bool) {
	c := x.c
	cond := []string{not(eq(errv, "I_nil"))}
	if iop := x.p.ssaProg.ImportedPackage("io"); iop != nil {
		names := []string{"EOF"}
		if full {
			names = append(names, "ErrUnexpectedEOF")
		}
		for _, nm := range names {
			if g := iop.Var(nm); g != nil {
				sv := x.load(st, x.globalPtr(g), pos)
				if sv.S != "" {
					cond = append(cond, not(eq(errv, sv.S)))
				}
			}
		}
	}
	st.cells["$rfault"] = Val{S: c.def("rf", "Bool", or(c.region(st, "$rfault"), and(cond...)))}
	c.note("ghost: rfault() records that a read from an underlying io.Reader failed with an error other than io.EOF")
}

type intrinsic func(x *Exec, st *State, fn *ssa.Function, args []Val, pos token.Pos, resT *types.Tuple) Val

var intrinsics = map[string]intrinsic{}

func init() {
	intrinsics["io.ReadFull"] = func(x *Exec, st *State, fn *ssa.Function, args []Val, pos token.Pos, resT *types.Tuple) Val {
		c := x.c
		// io.ReadFull(r, buf): 0 <= n <= len(buf); err == nil <=> n == len(buf); only buf[:n] is written
		x.oblige(st, "nil", pos, not(eq(args[0].S, "I_nil")), "", nil)
		p := args[1]
		r, _ := c.elemRegion(types.Typ[types.Uint8])
		h := c.region(st, r)
		asort := "(Array Int " + c.intSort(8) + ")"
		old := c.def("old", asort, sx("select", h, sRef(p.S)))
		na := c.freshSort("rf", asort)
		n := c.freshSort("n", "Int")
		c.assume(and(sx("<=", "0", n), sx("<=", n, sLen(p.S))))
		c.assumeDef(fmt.Sprintf("(forall ((i Int)) (! (=> (not (and (<= %s i) (< i (+ %s %s)))) (= (select %s i) (select %s i))) :pattern ((select %s i))))",
			sOff(p.S), sOff(p.S), n, na, old, na))
		c.setRegion(st, r, ite(eq(sRef(p.S), "0"), h, sx("store", h, sRef(p.S), na)))
		c.havocRegion(st, "$alloc")
		x.tapeDeliver(st, na, sOff(p.S), n)
		errv := c.freshSort("err", "Iface")
		c.assume(eq(eq(errv, "I_nil"), eq(n, sLen(p.S))))
		x.noteReadFault(st, errv, pos, true)
		c.note("trusted: io.ReadFull(r, buf) returns 0<=n<=len(buf), err==nil <=> n==len(buf), writes only buf[:n]; the reader does not touch the caller's private state")
		intT := types.Typ[types.Int]
		return Val{T: resT, Tup: []Val{{T: intT, S: c.fromIdx(intT, n)}, {T: resT.At(1).Type(), S: errv}}}
	}
	pureNonNilErr := func(x *Exec, st *State, fn *ssa.Function, args []Val, pos token.Pos, resT *types.Tuple) Val {
		c := x.c
		c.havocRegion(st, "$alloc")
		res := x.results(st, resT, "e")
		c.assume(not(eq(res.S, "I_nil")))
		// a freshly made error value differs from the error values that
		// existed before the call, in particular from the sentinels of io
		if iop := x.p.ssaProg.ImportedPackage("io"); iop != nil {
			for _, nm := range []string{"EOF", "ErrUnexpectedEOF"} {
				if g := iop.Var(nm); g != nil {
					sv := x.load(st, x.globalPtr(g), pos)
					if sv.S != "" {
						c.assume(not(eq(res.S, sv.S)))
					}
				}
			}
		}
		c.note("trusted: " + extKey(fn) + " returns a new non-nil error value (distinct from io.EOF and io.ErrUnexpectedEOF) and has no other effect")
		return res
	}
	// sort.Slice(x, less): permutes the elements of x; less must be a read-only function of ours
	intrinsics["sort.Slice"] = func(x *Exec, st *State, fn *ssa.Function, args []Val, pos token.Pos, resT *types.Tuple) Val {
		c := x.c
		var elem types.Type
		if mi, ok := x.curCall.Args[0].(*ssa.MakeInterface); ok {
			if sl, ok := mi.X.Type().Underlying().(*types.Slice); ok {
				elem = sl.Elem()
			}
		}
		readOnly := false
		if args[1].Fn != nil {
			if lf, ok := args[1].Fn.Fn.(*ssa.Function); ok {
				ms := x.p.modSet(c, lf)
				readOnly = !ms.All
				for r := range ms.Regions {
					if r != "$alloc" {
						readOnly = false
					}
				}
			}
		}
		if elem == nil || !readOnly {
			c.havocAll(st)
			c.note("sort.Slice with an unresolved comparator havocs the whole heap")
			return Val{T: resT}
		}
		// the comparator's precondition must hold for every pair of indices of x
		if lf, ok := args[1].Fn.Fn.(*ssa.Function); ok {
			if lfc := x.p.contracts[x.p.funcKey(lf)]; lfc != nil && len(lf.Params) == 2 {
				ln := sLen(x.payload(st, args[0].S, x.curCall.Args[0].(*ssa.MakeInterface).X.Type()))
				intT := types.Typ[types.Int]
				vars := map[string]Val{}
				var rng []string
				for _, pr := range lf.Params {
					n := c.freshConst("cmp_"+pr.Name(), intT)
					vars[pr.Name()] = Val{T: intT, S: n}
					rng = append(rng, sx("<=", "0", c.toIdx(intT, n)), sx("<", c.toIdx(intT, n), ln))
				}
				free := map[string]Val{}
				for i, fvv := range lf.FreeVars {
					if i < len(args[1].Fn.Binds) {
						free[fvv.Name()] = args[1].Fn.Binds[i]
					}
				}
				env := &Env{x: x, c: c, st: st, old: st, vars: vars, free: free, fn: lf, pos: lf.Pos(), ghostOnly: true}
				for i, rq := range lfc.Requires {
					goal := implies(and(rng...), x.evalClause(env, rq))
					x.oblige(st, "call-requires", pos, goal, fmt.Sprintf("%s.requires%d", x.p.funcKey(lf), i+1), nil)
				}
				lfc.Used = true
			}
		}
		r, _ := c.elemRegion(elem)
		c.havocRegion(st, r)
		c.havocRegion(st, "$alloc")
		c.note("trusted: sort.Slice(x, less) calls less only with indices inside x and only permutes the elements of x (comparator checked read-only by the frame analysis); it does not panic when less does not")
		return Val{T: resT}
	}
	intrinsics["slices.Sort"] = func(x *Exec, st *State, fn *ssa.Function, args []Val, pos token.Pos, resT *types.Tuple) Val {
		c := x.c
		if sl, ok := args[0].T.Underlying().(*types.Slice); ok {
			r, _ := c.elemRegion(sl.Elem())
			c.havocRegion(st, r)
		}
		c.note("trusted: slices.Sort only permutes the elements of its argument")
		return Val{T: resT}
	}
	mapsKeys := func(x *Exec, st *State, fn *ssa.Function, args []Val, pos token.Pos, resT *types.Tuple) Val {
		c := x.c
		c.havocRegion(st, "$alloc")
		t := resT.At(0).Type()
		if sl, ok := t.Underlying().(*types.Slice); ok {
			r, _ := c.elemRegion(sl.Elem())
			c.havocRegion(st, r)
		}
		res := x.results(st, resT, "keys")
		return res
	}
	_ = mapsKeys
	intrinsics["golang.org/x/exp/maps.Keys"] = func(x *Exec, st *State, fn *ssa.Function, args []Val, pos token.Pos, resT *types.Tuple) Val {
		c := x.c
		pre := c.alloc(st)
		c.havocRegion(st, "$alloc")
		t := resT.At(0).Type()
		if sl, ok := t.Underlying().(*types.Slice); ok {
			r, _ := c.elemRegion(sl.Elem())
			c.havocRegion(st, r)
		}
		res := x.results(st, resT, "keys")
		// a freshly allocated slice (or nil when the map is empty) with one element per key
		c.assume(or(eq(sRef(res.S), "0"), sx(">", sRef(res.S), pre)))
		if _, isMap := args[0].T.Underlying().(*types.Map); isMap {
			c.assume(eq(sLen(res.S), x.mapLen(st, args[0].T, args[0].S)))
		}
		c.note("trusted: maps.Keys returns a fresh slice holding the keys of the map in unspecified order")
		return res
	}
	intrinsics["maps.Keys"] = intrinsics["golang.org/x/exp/maps.Keys"]
	// bytes.Compare / bytes.Equal: functions of the contents of their arguments, modelled as
	// uninterpreted functions of (byte heap, a, b) so that code and contracts agree
	heapPure := func(name string, resSort func(c *Ctx) string) intrinsic {
		return func(x *Exec, st *State, fn *ssa.Function, args []Val, pos token.Pos, resT *types.Tuple) Val {
			return x.heapPureApp(st, name, args, resT.At(0).Type())
		}
	}
	intrinsics["bytes.Compare"] = heapPure("bytes_Compare", nil)
	intrinsics["bytes.Equal"] = heapPure("bytes_Equal", nil)
	// fmt.Fprintf / Fprint / Fprintln / io.WriteString and template execution write through w and
	// report the first write error (trusted); the ghost fault flag records a failure
	writeThrough := func(x *Exec, st *State, fn *ssa.Function, args []Val, pos token.Pos, resT *types.Tuple) Val {
		c := x.c
		x.oblige(st, "nil", pos, not(eq(args[0].S, "I_nil")), "", nil)
		pre := st.clone()
		oposPre := c.region(st, "$opos")
		c.havocAll(st) // the writer may be one of ours: its state changes
		x.assumeWriterInv(st, args[0])
		x.assumeKnownObjectInvs(st)
		// output through a leaf writer that is not the observed one does not reach the tape
		st.cells["$opos"] = Val{S: c.def("opos", "Int", ite(and(not(eq(args[0].S, c.obsConst())), c.leafWriter(args[0].S)), oposPre, c.region(st, "$opos")))}
		// output through one of our writers: what every call of its Write preserves still holds
		x.assumeStable(st, pre, args[0])
		res := x.results(st, resT, "wr")
		errv := res.S
		if len(res.Tup) > 0 {
			errv = res.Tup[len(res.Tup)-1].S
		}
		st.cells["$wfault"] = Val{S: c.def("wf", "Bool", or(c.region(st, "$wfault"), not(eq(errv, "I_nil"))))}
		c.note("trusted: " + extKey(fn) + " performs its output through w.Write and returns a non-nil error when a write failed (it may also fail for other reasons)")
		return res
	}
	for _, k := range []string{"fmt.Fprintf", "fmt.Fprint", "fmt.Fprintln", "io.WriteString"} {
		intrinsics[k] = writeThrough
	}
	intrinsics["(*text/template.Template).ExecuteTemplate"] = func(x *Exec, st *State, fn *ssa.Function, args []Val, pos token.Pos, resT *types.Tuple) Val {
		return writeThrough(x, st, fn, args[1:], pos, resT)
	}
	intrinsics["(*text/template.Template).Execute"] = intrinsics["(*text/template.Template).ExecuteTemplate"]
	intrinsics["math.Abs"] = func(x *Exec, st *State, fn *ssa.Function, args []Val, pos token.Pos, resT *types.Tuple) Val {
		c := x.c
		t := resT.At(0).Type()
		if c.mode.FP {
			return Val{T: t, S: sx("fp.abs", args[0].S)}
		}
		return Val{T: t, S: ite(sx(">=", args[0].S, "0.0"), args[0].S, sx("-", args[0].S))}
	}
	// math.Round / Floor / Ceil / Trunc / Inf: exact over the reals (arith real) or IEEE (arith fp)
	roundLike := func(name string) intrinsic {
		return func(x *Exec, st *State, fn *ssa.Function, args []Val, pos token.Pos, resT *types.Tuple) Val {
			c := x.c
			t := resT.At(0).Type()
			a := args[0].S
			if c.mode.FP {
				rm := map[string]string{"Round": "RNA", "Floor": "RTN", "Ceil": "RTP", "Trunc": "RTZ"}[name]
				return Val{T: t, S: sx("fp.roundToIntegral", rm, a)}
			}
			fl := func(v string) string { return sx("to_int", v) }
			neg := func(v string) string { return sx("-", v) }
			var r string
			switch name {
			case "Floor":
				r = fl(a)
			case "Ceil":
				r = neg(fl(neg(a)))
			case "Trunc":
				r = ite(sx(">=", a, "0.0"), fl(a), neg(fl(neg(a))))
			case "Round": // half away from zero
				r = ite(sx(">=", a, "0.0"), fl(sx("+", a, "0.5")), neg(fl(sx("+", neg(a), "0.5"))))
			}
			return Val{T: t, S: sx("to_real", c.def("rnd", "Int", r))}
		}
	}
	for _, k := range []string{"Round", "Floor", "Ceil", "Trunc"} {
		intrinsics["math."+k] = roundLike(k)
	}
	intrinsics["math.Inf"] = func(x *Exec, st *State, fn *ssa.Function, args []Val, pos token.Pos, resT *types.Tuple) Val {
		c := x.c
		t := resT.At(0).Type()
		if c.mode.FP {
			return Val{T: t, S: ite(sx(">=", args[0].S, "0"), "(_ +oo 11 53)", "(_ -oo 11 53)")}
		}
		// arith real: every float64 that occurs is finite (stated assumption);
		// the infinities are two constants beyond the float64 range.
		c.note("arith real: +Inf/-Inf are modelled as +-1e340; values compared with them are assumed finite float64 magnitudes")
		lit := "1" + strings.Repeat("0", 340) + ".0"
		return Val{T: t, S: ite(sx(">=", args[0].S, "0"), lit, sx("-", lit))}
	}
	// sync.Mutex as one ghost boolean per function context ("the package's mutex is
	// held"): Lock sets it, Unlock requires and clears it.
	intrinsics["(*sync.Mutex).Lock"] = func(x *Exec, st *State, fn *ssa.Function, args []Val, pos token.Pos, resT *types.Tuple) Val {
		st.cells["$held"] = Val{S: "true"}
		x.c.note("sync.Mutex is modelled as one ghost flag per function (held()); blocking and fairness are not modelled")
		return Val{}
	}
	intrinsics["(*sync.Mutex).Unlock"] = func(x *Exec, st *State, fn *ssa.Function, args []Val, pos token.Pos, resT *types.Tuple) Val {
		x.oblige(st, "unlock", pos, x.c.region(st, "$held"), "", nil)
		st.cells["$held"] = Val{S: "false"}
		return Val{}
	}
	intrinsics["errors.New"] = pureNonNilErr
	intrinsics["fmt.Errorf"] = pureNonNilErr
	pureFresh := func(x *Exec, st *State, fn *ssa.Function, args []Val, pos token.Pos, resT *types.Tuple) Val {
		x.c.havocRegion(st, "$alloc")
		x.c.note("trusted: " + extKey(fn) + " does not panic and has no effect on the caller's state")
		return x.results(st, resT, "p")
	}
	for _, k := range []string{"fmt.Sprintf", "fmt.Sprint", "fmt.Sprintln", "strconv.Itoa", "strconv.ParseInt", "strconv.ParseFloat",
		"strconv.Atoi", "strconv.ParseUint", "strings.Fields", "strings.Join", "strings.TrimSpace", "strings.HasPrefix",
		"strings.HasSuffix", "strings.TrimPrefix", "strings.TrimSuffix", "strings.Index", "strings.IndexByte", "strings.Contains",
		"strings.ToLower", "strings.ToUpper", "strings.Repeat", "strings.SplitN", "strings.Trim", "strings.TrimLeft", "strings.TrimRight",
		"strings.NewReader", "bytes.NewReader",
		"math.IsNaN", "math.IsInf", "math.NaN", "math.Mod", "math.Sqrt", "math.Max", "math.Min",
		"time.Parse", "(time.Time).Format", "(time.Time).IsZero", "strings.EqualFold", "unicode/utf8.RuneCountInString",
		"(*regexp.Regexp).FindStringSubmatch", "(*regexp.Regexp).MatchString", "strings.Cut", "strings.Replace", "strings.ReplaceAll",
		"strings.LastIndex", "strings.LastIndexByte", "strings.ContainsRune", "strings.IndexRune", "strings.Map",
		"(*bytes.Buffer).String", 
		"(*strings.Builder).WriteByte", "(*strings.Builder).WriteString",
		"(*strings.Builder).String", "(*strings.Builder).Len", "(*strings.Builder).WriteRune", "(*strings.Builder).Write",
		"bufio.NewScanner", "(*bufio.Scanner).Text", "(*bufio.Scanner).Bytes",
		"(*bufio.Scanner).Buffer", "strconv.FormatInt", "strconv.FormatFloat", "strconv.Quote", "unicode.IsSpace", "unicode.IsDigit"} {
		intrinsics[k] = pureFresh
	}
	// bufio.Scanner: Scan reads from the underlying reader (a read fault may
	// happen, ghost flag rfault); Err reports the first read error other than
	// io.EOF that Scan met.  The scanner's lifetime is approximated by the
	// function's: a fault since function entry counts as the scanner's.
	intrinsics["(*bufio.Scanner).Scan"] = func(x *Exec, st *State, fn *ssa.Function, args []Val, pos token.Pos, resT *types.Tuple) Val {
		c := x.c
		c.havocRegion(st, "$alloc")
		c.havocTpos(st, c.region(st, "$tpos"))
		c.havocRfault(st)
		c.note("trusted: (*bufio.Scanner).Scan reads from the underlying reader and has no other effect on the caller's state")
		return x.results(st, resT, "scan")
	}
	intrinsics["(*bufio.Scanner).Err"] = func(x *Exec, st *State, fn *ssa.Function, args []Val, pos token.Pos, resT *types.Tuple) Val {
		c := x.c
		c.havocRegion(st, "$alloc")
		res := x.results(st, resT, "serr")
		entry := "false"
		if r := x.root(); r.entry != nil {
			entry = c.region(r.entry, "$rfault")
		}
		c.assume(implies(and(c.region(st, "$rfault"), not(entry)), not(eq(res.S, "I_nil"))))
		c.note("trusted: (*bufio.Scanner).Err returns the first read error other than io.EOF met by Scan (a read fault since function entry is taken to be the scanner's)")
		return res
	}
	// bytes.Buffer: the ghost array $buflen holds the number of unread bytes of every buffer
	bufLenOf := func(x *Exec, st *State, ref string) string { return sx("select", x.c.region(st, "$buflen"), ref) }
	bufGrow := func(x *Exec, st *State, ref, by string) {
		bl := x.c.region(st, "$buflen")
		st.cells["$buflen"] = Val{S: x.c.def("buflen", "(Array Int Int)", sx("store", bl, ref, sx("+", sx("select", bl, ref), by)))}
	}
	intrinsics["(*bytes.Buffer).Len"] = func(x *Exec, st *State, fn *ssa.Function, args []Val, pos token.Pos, resT *types.Tuple) Val {
		c := x.c
		x.nilCheck(st, args[0].S, pos)
		l := bufLenOf(x, st, args[0].S)
		c.assume(and(sx("<=", "0", l), sx("<=", l, maxObj)))
		c.note("trusted: (*bytes.Buffer).Len returns the number of bytes written to the buffer since the last Reset (nothing reads from it here)")
		intT := types.Typ[types.Int]
		return Val{T: intT, S: c.fromIdx(intT, l)}
	}
	intrinsics["(*bytes.Buffer).Bytes"] = func(x *Exec, st *State, fn *ssa.Function, args []Val, pos token.Pos, resT *types.Tuple) Val {
		c := x.c
		x.nilCheck(st, args[0].S, pos)
		c.havocRegion(st, "$alloc")
		res := x.results(st, resT, "bytes")
		l := bufLenOf(x, st, args[0].S)
		c.assume(and(sx("<=", "0", l), sx("<=", l, maxObj), eq(sLen(res.S), l)))
		c.note("trusted: (*bytes.Buffer).Bytes returns a slice of length Len()")
		return res
	}
	intrinsics["(*bytes.Buffer).Reset"] = func(x *Exec, st *State, fn *ssa.Function, args []Val, pos token.Pos, resT *types.Tuple) Val {
		x.nilCheck(st, args[0].S, pos)
		bl := x.c.region(st, "$buflen")
		st.cells["$buflen"] = Val{S: x.c.def("buflen", "(Array Int Int)", sx("store", bl, args[0].S, "0"))}
		return Val{}
	}
	bufWrite := func(lenOf func(x *Exec, a Val) string) intrinsic {
		return func(x *Exec, st *State, fn *ssa.Function, args []Val, pos token.Pos, resT *types.Tuple) Val {
			c := x.c
			x.nilCheck(st, args[0].S, pos)
			n := lenOf(x, args[1])
			bufGrow(x, st, args[0].S, n)
			c.havocRegion(st, "$alloc")
			res := x.results(st, resT, "bw")
			// (n, nil) resp. nil: a bytes.Buffer accepts everything
			if len(res.Tup) == 2 {
				c.assume(and(eq(c.toIdx(res.Tup[0].T, res.Tup[0].S), n), eq(res.Tup[1].S, "I_nil")))
			} else if res.S != "" {
				c.assume(eq(res.S, "I_nil"))
			}
			c.note("trusted: writes to a bytes.Buffer accept all bytes and return a nil error")
			return res
		}
	}
	intrinsics["(*bytes.Buffer).Write"] = bufWrite(func(x *Exec, a Val) string { return sLen(a.S) })
	intrinsics["(*bytes.Buffer).WriteString"] = bufWrite(func(x *Exec, a Val) string { return sx("gstr_len", a.S) })
	intrinsics["(*bytes.Buffer).WriteByte"] = bufWrite(func(x *Exec, a Val) string { return "1" })
}

// heapPureApp: result = uf(H_uint8, args...) for functions that only read their []byte arguments.
func (x *Exec) heapPureApp(st *State, name string, args []Val, rt types.Type) Val {
	c := x.c
	r, rs := c.elemRegion(types.Typ[types.Uint8])
	f := "hp_" + name
	sorts := []string{rs}
	terms := []string{c.region(st, r)}
	for _, a := range args {
		sorts = append(sorts, c.sortOf(a.T))
		terms = append(terms, a.S)
	}
	c.declareFun(f, sorts, c.sortOf(rt))
	c.note("trusted: " + strings.ReplaceAll(name, "_", ".") + " is a function of the bytes of its arguments only (uninterpreted)")
	res := sx(f, terms...)
	c.assume(c.wf(rt, res))
	return Val{T: rt, S: res}
}

// ---------------------------------------------------------------------
// recursive ghost (spec) functions become SMT define-fun-rec

// namedGhost: a non-recursive specification function that is nevertheless kept
// as a named SMT function (directive "named").
func (p *Program) namedGhost(fn *ssa.Function) bool {
	fc := p.contracts[p.funcKey(fn)]
	return fc != nil && fc.Named
}

var recCache = map[*ssa.Function]bool{}

func isRecursive(fn *ssa.Function) bool {
	if v, ok := recCache[fn]; ok {
		return v
	}
	res := false
	for _, b := range fn.Blocks {
		for _, in := range b.Instrs {
			if c, ok := in.(*ssa.Call); ok {
				if f, ok := c.Call.Value.(*ssa.Function); ok && f == fn {
					res = true
				}
			}
		}
	}
	recCache[fn] = res
	return res
}

// ghostReads: the heap regions a ghost function reads (statically).
func (x *Exec) ghostReads(fn *ssa.Function, seen map[*ssa.Function]bool, out map[string]string) {
	if seen[fn] {
		return
	}
	seen[fn] = true
	c := x.c
	for _, b := range fn.Blocks {
		for _, in := range b.Instrs {
			switch in := in.(type) {
			case *ssa.IndexAddr:
				if sl, ok := in.X.Type().Underlying().(*types.Slice); ok {
					r, s := c.elemRegion(sl.Elem())
					out[r] = s
				}
			case *ssa.FieldAddr:
				if pt, ok := in.X.Type().Underlying().(*types.Pointer); ok {
					if _, isAlloc := in.X.(*ssa.Alloc); !isAlloc {
						r, s := c.fieldRegion(pt.Elem(), in.Field)
						out[r] = s
					}
				}
			case *ssa.Lookup:
				if _, ok := in.X.Type().Underlying().(*types.Map); ok {
					h, v, l := c.mapRegions(in.X.Type())
					out[h], out[v], out[l] = c.regions[h], c.regions[v], c.regions[l]
				}
			case *ssa.Call:
				if f, ok := in.Call.Value.(*ssa.Function); ok && x.p.isGhostFn(f) {
					x.ghostReads(f, seen, out)
				}
			}
		}
	}
}

var recInProgress = map[string]bool{}

// recApp returns the application of the define-fun-rec for a recursive ghost function.
func (x *Exec) recApp(st *State, fn *ssa.Function, args []Val, resT *types.Tuple) Val {
	c := x.c
	if resT.Len() != 1 {
		panic(unsupported("recursive ghost function with several results"))
	}
	name := "rec_" + san(x.p.funcKey(fn))
	reads := map[string]string{}
	x.ghostReads(fn, map[*ssa.Function]bool{}, reads)
	regs := sortedKeys(reads)
	rt := resT.At(0).Type()
	if paramSlicesOnly(fn) {
		return x.recAppParamArrays(st, fn, args, rt, name)
	}
	if !c.funDecls["rec:"+name] && !recInProgress[name] {
		recInProgress[name] = true
		// translate the body once over bound symbols
		var params []string
		var pvals []Val
		for i, pr := range fn.Params {
			pn := fmt.Sprintf("rp%d_%s", i, san(pr.Name()))
			params = append(params, fmt.Sprintf("(%s %s)", pn, c.sortOf(pr.Type())))
			pvals = append(pvals, Val{T: pr.Type(), S: pn})
		}
		bst := &State{guard: "true", cells: map[string]Val{}}
		for _, r := range regs {
			rn := "rh_" + r
			params = append(params, fmt.Sprintf("(%s %s)", rn, reads[r]))
			bst.cells[r] = Val{S: rn}
		}
		bst.cells["$alloc"] = Val{S: "0"}
		c.inQuant++
		body := func() string {
			defer func() { c.inQuant-- }()
			inlineCounter++
			sub := &Exec{v: x.v, c: c, p: x.p, fn: fn, key: x.p.funcKey(fn), vals: map[ssa.Value]Val{}, prefix: fmt.Sprintf("rec/i%d", inlineCounter),
				ghost: true, depth: x.depth + 1, inline: true, props: x.props, parent: x, params: map[string]Val{}, freeVals: map[string]Val{}}
			for i, pr := range fn.Params {
				sub.vals[pr] = pvals[i]
			}
			sub.entry = bst.clone()
			sub.recName = name
			sub.recRegs = regs
			sub.run(bst.clone())
			if len(sub.rets) == 0 {
				panic(unsupported("recursive ghost function never returns"))
			}
			var vals []Val
			var gs []string
			for _, r := range sub.rets {
				vals = append(vals, r.results[0])
				gs = append(gs, r.st.guard)
			}
			return c.mergeVals("L:ret", vals, gs).S
		}()
		delete(recInProgress, name)
		c.funDecls["rec:"+name] = true
		c.decls = append(c.decls, fmt.Sprintf("(define-fun-rec %s (%s) %s %s)", name, strings.Join(params, " "), c.sortOf(rt), body))
		c.note("recursive specification function " + x.p.funcKey(fn) + " is assumed to terminate (SMT define-fun-rec)")
	}
	var as []string
	for _, a := range args {
		as = append(as, a.S)
	}
	for _, r := range regs {
		as = append(as, c.region(st, r))
	}
	return Val{T: rt, S: sx(name, as...)}
}

// paramSlicesOnly: the function reads memory only by indexing its own slice
// parameters (and passes them unchanged to its recursive calls).
func paramSlicesOnly(fn *ssa.Function) bool {
	isParam := func(v ssa.Value) bool {
		for {
			switch u := v.(type) {
			case *ssa.Parameter:
				return true
			case *ssa.UnOp:
				a, ok := u.X.(*ssa.Alloc)
				if !ok || a.Referrers() == nil {
					return false
				}
				var src ssa.Value
				n := 0
				for _, r := range *a.Referrers() {
					if st, ok := r.(*ssa.Store); ok && st.Addr == ssa.Value(a) {
						n++
						src = st.Val
					}
				}
				if n != 1 {
					return false
				}
				v = src
			default:
				return false
			}
		}
	}
	for _, b := range fn.Blocks {
		for _, in := range b.Instrs {
			switch in := in.(type) {
			case *ssa.IndexAddr:
				if _, ok := in.X.Type().Underlying().(*types.Slice); ok && !isParam(in.X) {
					return false
				}
			case *ssa.FieldAddr:
				if _, isAlloc := in.X.(*ssa.Alloc); !isAlloc {
					return false
				}
			case *ssa.Lookup, *ssa.MapUpdate, *ssa.Slice:
				return false
			case *ssa.Call:
				f, ok := in.Call.Value.(*ssa.Function)
				if _, isB := in.Call.Value.(*ssa.Builtin); isB {
					continue
				}
				if !ok || f != fn {
					return false
				}
				for i, a := range in.Call.Args {
					if _, isSl := a.Type().Underlying().(*types.Slice); isSl {
						if !isParam(a) {
							return false
						}
						// must be the same parameter position
						p := a
						for {
							if u, ok := p.(*ssa.UnOp); ok {
								al := u.X.(*ssa.Alloc)
								for _, r := range *al.Referrers() {
									if st, ok := r.(*ssa.Store); ok && st.Addr == ssa.Value(al) {
										p = st.Val
									}
								}
								continue
							}
							break
						}
						if pp, ok := p.(*ssa.Parameter); !ok || fn.Params[i] != pp {
							return false
						}
					}
				}
			}
		}
	}
	return true
}

// recAppParamArrays: define-fun-rec whose slice parameters are passed as
// (backing array, offset, length) so that writes to other objects do not
// affect the application.
func (x *Exec) recAppParamArrays(st *State, fn *ssa.Function, args []Val, rt types.Type, name string) Val {
	c := x.c
	if !c.funDecls["rec:"+name] && !recInProgress[name] {
		recInProgress[name] = true
		var params []string
		var pvals []Val
		bst := &State{guard: "true", cells: map[string]Val{}}
		bst.cells["$alloc"] = Val{S: "0"}
		for i, pr := range fn.Params {
			pn := fmt.Sprintf("rp%d_%s", i, san(pr.Name()))
			if sl, ok := pr.Type().Underlying().(*types.Slice); ok {
				r, rs := c.elemRegion(sl.Elem())
				inner := rs[len("(Array Int ") : len(rs)-1]
				params = append(params, fmt.Sprintf("(%s_arr %s) (%s_off Int) (%s_len Int)", pn, inner, pn, pn))
				// the i-th slice parameter lives at reference i+1 of a private heap
				ref := fmt.Sprint(i + 1)
				cur, ok := bst.cells[r]
				base := fmt.Sprintf("((as const %s) ((as const %s) %s))", rs, inner, c.zero(sl.Elem()))
				if ok {
					base = cur.S
				}
				bst.cells[r] = Val{S: sx("store", base, ref, pn+"_arr")}
				pvals = append(pvals, Val{T: pr.Type(), S: mkSlice(ref, pn+"_off", pn+"_len", pn+"_len")})
				continue
			}
			params = append(params, fmt.Sprintf("(%s %s)", pn, c.sortOf(pr.Type())))
			pvals = append(pvals, Val{T: pr.Type(), S: pn})
		}
		c.inQuant++
		body := func() string {
			defer func() { c.inQuant-- }()
			inlineCounter++
			sub := &Exec{v: x.v, c: c, p: x.p, fn: fn, key: x.p.funcKey(fn), vals: map[ssa.Value]Val{}, prefix: fmt.Sprintf("rec/i%d", inlineCounter),
				ghost: true, depth: x.depth + 1, inline: true, props: x.props, parent: x, params: map[string]Val{}, freeVals: map[string]Val{}}
			for i, pr := range fn.Params {
				sub.vals[pr] = pvals[i]
			}
			sub.entry = bst.clone()
			sub.run(bst.clone())
			if len(sub.rets) == 0 {
				panic(unsupported("recursive ghost function never returns"))
			}
			var vals []Val
			var gs []string
			for _, r := range sub.rets {
				vals = append(vals, r.results[0])
				gs = append(gs, r.st.guard)
			}
			return c.mergeVals("L:ret", vals, gs).S
		}()
		delete(recInProgress, name)
		c.funDecls["rec:"+name] = true
		c.decls = append(c.decls, fmt.Sprintf("(define-fun-rec %s (%s) %s %s)", name, strings.Join(params, " "), c.sortOf(rt), body))
		c.note("recursive specification function " + x.p.funcKey(fn) + " is assumed to terminate (SMT define-fun-rec)")
	}
	var as []string
	for i, a := range args {
		if sl, ok := fn.Params[i].Type().Underlying().(*types.Slice); ok {
			r, _ := c.elemRegion(sl.Elem())
			as = append(as, sx("select", c.region(st, r), sRef(a.S)), sOff(a.S), sLen(a.S))
			continue
		}
		as = append(as, a.S)
	}
	return Val{T: rt, S: sx(name, as...)}
}

// assumeWriterInv: after an external function has called methods of one of our
// writer types through an interface, the writer's type invariant still holds
// (every method of the type is verified to preserve it; the external function
// can only call methods).
func (x *Exec) assumeWriterInv(st *State, w Val) {
	if !strings.HasPrefix(w.S, "(I_P") {
		return
	}
	parts := splitSexp(w.S[1 : len(w.S)-1])
	if len(parts) != 2 {
		return
	}
	for _, t := range x.p.ifaceTypes {
		if ifaceCtorName(t) != parts[0] {
			continue
		}
		pt, ok := t.(*types.Pointer)
		if !ok {
			return
		}
		nt, ok := pt.Elem().(*types.Named)
		if !ok || nt.Obj().Pkg() == nil {
			return
		}
		for _, ti := range x.p.typeInvs {
			if ti.typ == nt.Obj().Name() && ti.pkg == nt.Obj().Pkg().Name() {
				cl := &Clause{Kind: "invariant", Text: fmt.Sprintf("%s(w__)", ti.fn), Line: ti.line}
				scope := x.fn
				env := &Env{x: x, c: x.c, st: st, old: st, vars: map[string]Val{"w__": {T: t, S: parts[1]}}, fn: scope, pos: token.NoPos, ghostOnly: true}
				func() {
					defer func() { recover() }()
					x.assumeG(st, x.evalClause(env, cl))
					x.c.note("trusted: an external writer function only calls methods of " + nt.Obj().Name() + ", which preserve its invariant")
				}()
			}
		}
	}
}

// assumeStable: external write-through code performed its output by calling
// w.Write some number of times.  If w is one of our writer types, the stable
// clauses of its Write method (two-state, reflexive and transitive: checked
// where that method is verified) relate the state before to the state after.
func (x *Exec) assumeStable(st, pre *State, w Val) {
	if !strings.HasPrefix(w.S, "(I_P") {
		return
	}
	parts := splitSexp(w.S[1 : len(w.S)-1])
	if len(parts) != 2 {
		return
	}
	for _, t := range x.p.ifaceTypes {
		if ifaceCtorName(t) != parts[0] {
			continue
		}
		pt, ok := t.(*types.Pointer)
		if !ok {
			return
		}
		nt, ok := pt.Elem().(*types.Named)
		if !ok || nt.Obj().Pkg() == nil {
			return
		}
		key := nt.Obj().Pkg().Name() + ".(*" + nt.Obj().Name() + ").Write"
		fc := x.p.contracts[key]
		fn := x.p.byName[key]
		if fc == nil || fn == nil || len(fn.Params) == 0 {
			return
		}
		vars := map[string]Val{fn.Params[0].Name(): {T: t, S: parts[1]}}
		env := &Env{x: x, c: x.c, st: st, old: pre, vars: vars, oldVars: vars, fn: fn, pos: fn.Pos(), ghostOnly: true}
		for _, en := range fc.Ensures {
			if !en.Stable {
				continue
			}
			fact := x.evalClause(env, en)
			x.assumeG(st, fact)
			x.c.note("trusted: an external writer function performs its output only through calls of " + key + "; its stable clauses (proved reflexive and transitive) then hold across the call")
		}
	}
}

// stableObligations: the stable clauses of a Write method, taken together as
// one relation E(before, after), must be reflexive and transitive over
// arbitrary states; only then may they be assumed across an unknown number
// of calls (assumeStable).
func (x *Exec) stableObligations(st *State) {
	var cls []*Clause
	seen := map[string]bool{}
	var props []string
	for _, en := range x.fc.Ensures {
		if en.Stable {
			cls = append(cls, en)
			for _, t := range en.Tags {
				if p := propOfTag(t); !seen[p] {
					seen[p] = true
					props = append(props, p)
				}
			}
		}
	}
	if len(cls) == 0 {
		return
	}
	mk := func(from *State) *State {
		s := from.clone()
		x.c.havocAll(s)
		return s
	}
	s0 := mk(st)
	s1 := mk(s0)
	s2 := mk(s1)
	rel := func(a, b *State) string {
		env := &Env{x: x, c: x.c, st: b, old: a, vars: x.params, oldVars: x.params, free: x.freeVals, fn: x.fn, pos: x.fn.Pos(), ghostOnly: true}
		var fs []string
		for _, cl := range cls {
			fs = append(fs, x.evalClause(env, cl))
		}
		return and(fs...)
	}
	x.oblige(st, "stable-refl", x.fn.Pos(), rel(s0, s0), "stable", props)
	x.oblige(st, "stable-trans", x.fn.Pos(), implies(and(rel(s0, s1), rel(s1, s2)), rel(s0, s2)), "stable", props)
}

// assumeKnownObjectInvs: after an external writer function ran, the type
// invariants of all objects this function holds pointers to still hold: the
// invariants mention only the object's own (unexported) fields, which external
// code cannot touch and which every method of the type provably preserves.
func (x *Exec) assumeKnownObjectInvs(st *State) {
	seen := map[string]bool{}
	try := func(v Val) {
		pt, ok := v.T.(*types.Pointer)
		if !ok || v.S == "" || seen[v.S] {
			return
		}
		nt, ok := pt.Elem().(*types.Named)
		if !ok || nt.Obj().Pkg() == nil {
			return
		}
		for _, ti := range x.p.typeInvs {
			if ti.typ == nt.Obj().Name() && ti.pkg == nt.Obj().Pkg().Name() {
				seen[v.S] = true
				cl := &Clause{Kind: "invariant", Text: fmt.Sprintf("w__ == nil || %s(w__)", ti.fn), Line: ti.line}
				env := &Env{x: x, c: x.c, st: st, old: st, vars: map[string]Val{"w__": {T: v.T, S: v.S}}, fn: x.fn, pos: token.NoPos, ghostOnly: true}
				func() {
					defer func() { recover() }()
					x.assumeG(st, x.evalClause(env, cl))
				}()
			}
		}
	}
	for _, v := range x.vals {
		try(v)
	}
	for k, v := range st.cells {
		if !isRegionKey(k) && v.T != nil {
			try(v)
		}
	}
}
