package main

// SMT-LIB term construction helpers and the solver racing driver.

import (
	"bytes"
	"context"
	"fmt"
	"math/big"
	"os"
	"os/exec"
	"path/filepath"
	"strings"
	"sync/atomic"
	"time"
)

func sx(op string, args ...string) string {
	return "(" + op + " " + strings.Join(args, " ") + ")"
}

func and(args ...string) string {
	var out []string
	for _, a := range args {
		if a == "true" || a == "" {
			continue
		}
		if a == "false" {
			return "false"
		}
		out = append(out, a)
	}
	switch len(out) {
	case 0:
		return "true"
	case 1:
		return out[0]
	}
	return sx("and", out...)
}

func or(args ...string) string {
	var out []string
	for _, a := range args {
		if a == "false" || a == "" {
			continue
		}
		if a == "true" {
			return "true"
		}
		out = append(out, a)
	}
	switch len(out) {
	case 0:
		return "false"
	case 1:
		return out[0]
	}
	return sx("or", out...)
}

func not(a string) string {
	switch a {
	case "true":
		return "false"
	case "false":
		return "true"
	}
	if strings.HasPrefix(a, "(not ") && balancedPrefix(a[5:len(a)-1]) {
		return a[5 : len(a)-1]
	}
	return "(not " + a + ")"
}

// balancedPrefix reports whether s is one complete s-expression.
func balancedPrefix(s string) bool {
	depth := 0
	for i, c := range s {
		switch c {
		case '(':
			depth++
		case ')':
			depth--
			if depth < 0 {
				return false
			}
			if depth == 0 && i != len(s)-1 {
				return false
			}
		case ' ':
			if depth == 0 {
				return false
			}
		}
	}
	return depth == 0
}

func implies(a, b string) string {
	if a == "true" {
		return b
	}
	if a == "false" || b == "true" {
		return "true"
	}
	return sx("=>", a, b)
}

func ite(c, a, b string) string {
	if c == "true" {
		return a
	}
	if c == "false" {
		return b
	}
	if a == b {
		return a
	}
	return sx("ite", c, a, b)
}

func eq(a, b string) string {
	if a == b {
		return "true"
	}
	return sx("=", a, b)
}

func intLit(v *big.Int) string {
	if v.Sign() < 0 {
		return "(- " + new(big.Int).Neg(v).String() + ")"
	}
	return v.String()
}

func intLit64(v int64) string { return intLit(big.NewInt(v)) }

func bvLit(v *big.Int, w int) string {
	m := new(big.Int).Lsh(big.NewInt(1), uint(w))
	x := new(big.Int).Mod(v, m)
	return fmt.Sprintf("(_ bv%s %d)", x.String(), w)
}

// ---------------------------------------------------------------------
// solver driver

type SolverResult struct {
	Status  string // "unsat", "sat", "unknown", "timeout", "error"
	Backend string
	Ms      int64
	Model   string
	Raw     string
}

type solverSpec struct {
	name string
	argv func(file string, timeoutS int) []string
}

var solvers = []solverSpec{
	{"z3-new-5.1.0", func(f string, t int) []string { return []string{"z3-new", fmt.Sprintf("-T:%d", t), f} }},
	{"z3-4.8.12", func(f string, t int) []string { return []string{"z3", fmt.Sprintf("-T:%d", t), f} }},
	{"z3-new-5.1.0(auto_config=false,seed=42)", func(f string, t int) []string {
		return []string{"z3-new", fmt.Sprintf("-T:%d", t), "smt.auto_config=false", "smt.random_seed=42", f}
	}},
	{"z3-new-5.1.0(seed=7)", func(f string, t int) []string {
		return []string{"z3-new", fmt.Sprintf("-T:%d", t), "smt.random_seed=7", f}
	}},
	{"z3-new-5.1.0(seed=1234)", func(f string, t int) []string {
		return []string{"z3-new", fmt.Sprintf("-T:%d", t), "smt.random_seed=1234", f}
	}},
	{"z3-4.8.12(seed=5)", func(f string, t int) []string {
		return []string{"z3", fmt.Sprintf("-T:%d", t), "smt.random_seed=5", f}
	}},
	{"cvc5-1.0", func(f string, t int) []string {
		return []string{"cvc5", "--produce-models", fmt.Sprintf("--tlimit=%d", t*1000), f}
	}},
}

var solverCalls int64
var solverNanos int64

var solverSlots = make(chan struct{}, 16)

func runOne(ctx context.Context, sp solverSpec, file string, timeoutS int) SolverResult {
	select {
	case solverSlots <- struct{}{}:
	case <-ctx.Done():
		return SolverResult{Status: "unknown", Backend: sp.name}
	}
	defer func() { <-solverSlots }()
	if ctx.Err() != nil {
		return SolverResult{Status: "unknown", Backend: sp.name}
	}
	start := time.Now()
	argv := sp.argv(file, timeoutS)
	cctx, cancel := context.WithTimeout(ctx, time.Duration(timeoutS+2)*time.Second)
	defer cancel()
	cmd := exec.CommandContext(cctx, argv[0], argv[1:]...)
	var out bytes.Buffer
	cmd.Stdout = &out
	cmd.Stderr = &out
	_ = cmd.Run()
	ms := time.Since(start).Milliseconds()
	atomic.AddInt64(&solverCalls, 1)
	atomic.AddInt64(&solverNanos, int64(time.Since(start)))
	raw := out.String()
	// skip solver warnings in front of the answer
	for strings.HasPrefix(raw, "WARNING") {
		i := strings.Index(raw, "\n")
		if i < 0 {
			break
		}
		raw = raw[i+1:]
	}
	first := strings.TrimSpace(strings.SplitN(raw, "\n", 2)[0])
	res := SolverResult{Backend: sp.name, Ms: ms, Raw: raw}
	switch first {
	case "unsat":
		res.Status = "unsat"
	case "sat":
		res.Status = "sat"
		// fetch the counterexample from the same solver configuration
		if data, err := os.ReadFile(file); err == nil && !strings.Contains(string(data), "(get-model)") {
			mf := file + ".model"
			os.WriteFile(mf, append(data, []byte("(get-model)\n")...), 0o644)
			margv := sp.argv(mf, timeoutS)
			mctx, mcancel := context.WithTimeout(context.Background(), time.Duration(timeoutS+2)*time.Second)
			mout, _ := exec.CommandContext(mctx, margv[0], margv[1:]...).Output()
			mcancel()
			os.Remove(mf)
			if i := strings.Index(string(mout), "\n"); i >= 0 && strings.HasPrefix(string(mout), "sat") {
				res.Model = string(mout)[i+1:]
			}
		}
	case "unknown":
		res.Status = "unknown"
	case "timeout":
		res.Status = "timeout"
	default:
		if cctx.Err() != nil {
			res.Status = "timeout"
		} else if strings.Contains(raw, "timeout") || strings.Contains(raw, "interrupted") {
			res.Status = "timeout"
		} else {
			res.Status = "error"
		}
	}
	return res
}

// solve races the installed solvers on one query.  In quick mode the
// first definite answer wins; in thorough mode all definite answers must
// agree (a contradiction is reported as status "conflict").
func solve(query string, dir string, name string, timeoutS int, thorough bool, phase int) SolverResult {
	file := filepath.Join(dir, name+".smt2")
	if phase == 1 {
		if err := os.WriteFile(file, []byte(query), 0o644); err != nil {
			return SolverResult{Status: "error", Raw: err.Error()}
		}
	}
	ctx, cancel := context.WithCancel(context.Background())
	defer cancel()
	if phase == 1 {
		// phase 1: z3 5.1.0 alone with a short limit (decides most obligations)
		return runOne(ctx, solvers[0], file, min(timeoutS, 5))
	}
	// phase 2: race all installed solvers, plus z3 on the sliced variant of the query
	ch := make(chan SolverResult, len(solvers)+1)
	for _, sp := range solvers {
		sp := sp
		go func() { ch <- runOne(ctx, sp, file, timeoutS) }()
	}
	go func() {
		r := runOne(ctx, solvers[0], filepath.Join(dir, name+".sl.smt2"), timeoutS)
		r.Backend += "(sliced)"
		if r.Status != "unsat" {
			r.Status = "unknown"
		}
		ch <- r
	}()
	var definite []SolverResult
	var last SolverResult
	for i := 0; i < len(solvers)+1; i++ {
		res := <-ch
		last = res
		if res.Status == "unsat" || res.Status == "sat" {
			definite = append(definite, res)
			if !thorough {
				return res
			}
		}
	}
	if len(definite) == 0 {
		last.Status = worstStatus(last.Status)
		return last
	}
	for _, d := range definite[1:] {
		if d.Status != definite[0].Status {
			return SolverResult{Status: "conflict", Backend: definite[0].Backend + " vs " + d.Backend,
				Raw: "solvers disagree: " + definite[0].Backend + "=" + definite[0].Status + " " + d.Backend + "=" + d.Status}
		}
	}
	best := definite[0]
	names := []string{}
	for _, d := range definite {
		names = append(names, d.Backend)
	}
	best.Backend = strings.Join(names, "+")
	return best
}

func worstStatus(s string) string {
	if s == "error" {
		return "unknown"
	}
	return s
}

// isub / iadd: integer terms with trivial constant folding.
func isub(a, b string) string {
	if b == "0" {
		return a
	}
	if x, ok := isIntLit(a); ok {
		if y, ok := isIntLit(b); ok {
			return intLit(new(big.Int).Sub(x, y))
		}
	}
	if a == b {
		return "0"
	}
	return sx("-", a, b)
}

func iadd(a, b string) string {
	if b == "0" {
		return a
	}
	if a == "0" {
		return b
	}
	if x, ok := isIntLit(a); ok {
		if y, ok := isIntLit(b); ok {
			return intLit(new(big.Int).Add(x, y))
		}
	}
	return sx("+", a, b)
}
