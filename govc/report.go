package main

import (
	"bufio"
	"encoding/json"
	"fmt"
	"go/parser"
	"os"
	"path/filepath"
	"sort"
	"strings"
	"time"
)

// loadExternalSpecs reads trusted contracts for functions outside the module.
func (p *Program) loadExternalSpecs(dir string) error {
	files, _ := filepath.Glob(filepath.Join(dir, "*.spec.go"))
	for _, f := range files {
		af, err := parser.ParseFile(p.fset, f, nil, parser.ParseComments)
		if err != nil {
			return err
		}
		if err := p.parseContractFile("", af, f, true); err != nil {
			return err
		}
	}
	return nil
}

type KnownFinding struct {
	Property   string `json:"property"`
	Obligation string `json:"obligation"`
	Input      string `json:"input"`
	What       string `json:"what"`
	Status     string `json:"status"` // "open" or "fixed"
	Commit     string `json:"commit,omitempty"`
}

type KnownFile struct {
	Findings []KnownFinding `json:"findings"`
}

func loadKnown(verif string) []KnownFinding {
	data, err := os.ReadFile(filepath.Join(verif, "known_findings.json"))
	if err != nil {
		return nil
	}
	var kf KnownFile
	if json.Unmarshal(data, &kf) != nil {
		return nil
	}
	return kf.Findings
}

// loadUnproved: obligations generated but not claimed (engine incompleteness),
// one name per line; '#' comments.
func loadUnproved(verif string) map[string]string {
	out := map[string]string{}
	files, _ := filepath.Glob(filepath.Join(verif, "contracts", "unproved*.txt"))
	for _, fn := range files {
		f, err := os.Open(fn)
		if err != nil {
			continue
		}
		sc := bufio.NewScanner(f)
		sc.Buffer(make([]byte, 1<<20), 1<<20)
		for sc.Scan() {
			line := strings.TrimSpace(sc.Text())
			if line == "" || strings.HasPrefix(line, "#") {
				continue
			}
			reason := ""
			if i := strings.Index(line, "\t"); i >= 0 {
				reason = strings.TrimSpace(line[i+1:])
				line = strings.TrimSpace(line[:i])
			}
			out[line] = reason
		}
		f.Close()
	}
	return out
}

func loadFloors(verif string) map[string]int {
	out := map[string]int{}
	data, err := os.ReadFile(filepath.Join(verif, "selftest", "floors.json"))
	if err == nil {
		json.Unmarshal(data, &out)
	}
	return out
}

func report(o *Options, p *Program, v *Verifier, keys []string, obls []*Obligation, start time.Time) int {
	unproved := loadUnproved(o.verif)
	known := loadKnown(o.verif)
	floors := loadFloors(o.verif)

	var outs []oblOut
	byBackend := map[string]int{}
	discharged, total := 0, 0
	var failed []*Obligation
	var notClaimed []string
	var vacuityUnknown []string
	var solverMs int64
	for _, ob := range obls {
		r := ob.Result
		solverMs += r.Ms
		if reason, skip := unproved[ob.Name]; skip {
			notClaimed = append(notClaimed, ob.Name+" ("+reason+"; this run: "+r.Status+")")
			continue
		}
		if ob.Kind == "requires-sat" && r.Status != "unsat" && r.Status != "sat" {
			vacuityUnknown = append(vacuityUnknown, ob.Name)
			continue
		}
		total++
		outs = append(outs, oblOut{Name: ob.Name, Kind: ob.Kind, Func: ob.Func, Pos: ob.Pos, Result: r.Status, Backend: r.Backend, Ms: r.Ms})
		if r.Status == "unsat" {
			discharged++
			byBackend[r.Backend]++
		} else {
			failed = append(failed, ob)
		}
	}
	problems := append([]string{}, v.problems...)
	if fl, ok := floors[o.prop]; ok && o.funcs == "" && total < fl {
		problems = append(problems, fmt.Sprintf("only %d obligations generated for %s, floor is %d (contracts no longer match the code?)", total, o.prop, fl))
	}
	if total == 0 {
		problems = append(problems, "no obligations generated for "+o.prop)
	}

	// violations
	os.MkdirAll(filepath.Join(o.out, "replays"), 0o755)
	if old, _ := filepath.Glob(filepath.Join(o.out, "replays", o.prop+"-*")); o.funcs == "" {
		for _, f := range old {
			os.Remove(f)
		}
	}
	nviol := 0
	var knownLines []string
	var violLines []string
	for _, ob := range failed {
		rp := tryReplay(o, p, ob)
		// known finding?
		kf := matchKnown(known, o.prop, ob, rp)
		if kf != nil {
			knownLines = append(knownLines, fmt.Sprintf("KNOWN-FINDING: property=%s %s: %s [%s]", o.prop, ob.Name, kf.What, kf.Input))
			continue
		}
		nviol++
		file := filepath.Join(o.out, "replays", fmt.Sprintf("%s-%s.txt", o.prop, shortName(ob.Name)))
		var b strings.Builder
		fmt.Fprintf(&b, "property: %s\nfailed obligation: %s\nkind: %s\nfunction: %s\nposition: %s\nsource: %s\nsolver: %s -> %s\n",
			o.prop, ob.Name, ob.Kind, ob.Func, ob.Pos, ob.Text, ob.Result.Backend, ob.Result.Status)
		if rp != nil {
			fmt.Fprintf(&b, "replay: %s\n%s\n", rp.Verdict, rp.Detail)
		}
		fmt.Fprintf(&b, "\n--- solver output ---\n%s\n", truncate(ob.Result.Raw, 20000))
		if ob.Result.Status == "sat" && ob.Result.Model != "" {
			fmt.Fprintf(&b, "\n--- counterexample (solver model, scalar symbols) ---\n%s\n", truncate(filterModel(ob.Result.Model), 30000))
		}
		os.WriteFile(file, []byte(b.String()), 0o644)
		suffix := ""
		if rp == nil || !rp.Confirmed {
			suffix = " no-failing-input-found"
		}
		violLines = append(violLines, fmt.Sprintf("VIOLATION property=%s replay=%s obligation=%s%s", o.prop, file, ob.Name, suffix))
	}
	for i, pr := range problems {
		nviol++
		file := filepath.Join(o.out, "replays", fmt.Sprintf("%s-problem%d.txt", o.prop, i+1))
		os.WriteFile(file, []byte("property: "+o.prop+"\nfailed obligation: framework-integrity\n"+pr+"\n"), 0o644)
		violLines = append(violLines, fmt.Sprintf("VIOLATION property=%s replay=%s obligation=framework-integrity no-failing-input-found", o.prop, file))
	}

	// evidence
	var fnames []string
	var trusted []string
	notes := map[string]bool{}
	var engineErrs []string
	for _, k := range keys {
		fr := v.funcs[k]
		if fr == nil {
			continue
		}
		if fr.Trusted {
			trusted = append(trusted, k+" ("+strings.Join(fr.Notes, "; ")+")")
			continue
		}
		fnames = append(fnames, fmt.Sprintf("%s [%s, %d obligations]", k, fr.Mode, fr.Obligations))
		for _, n := range fr.Notes {
			notes[n] = true
		}
		if fr.Error != "" {
			engineErrs = append(engineErrs, k+": "+fr.Error)
		}
	}
	var samples []interface{}
	for i, ob := range obls {
		if i%(max(1, len(obls)/5)) == 0 && len(samples) < 6 {
			samples = append(samples, map[string]string{"obligation": ob.Name, "kind": ob.Kind, "at": ob.Pos, "source": ob.Text,
				"goal_smt_head": truncate(and(ob.guard, not(ob.goal)), 300), "result": ob.Result.Status, "backend": ob.Result.Backend})
		}
	}
	assumptions := sortedSet(notes)
	assumptions = append(assumptions,
		"govc (the VC generator of /verif/govc), go/ssa, go/types and the SMT solvers are trusted",
		"the Go compiler and runtime implement the language specification; no goroutines, no unsafe, no reflection in the verified functions",
		"no single Go object has more than 2^40 elements; make() above 2^30 elements counts as an absurd allocation",
		"append growing a slice: elements beyond the new length of a fresh backing array are not modelled (never re-sliced in the verified code)",
		"callees are replaced by their contracts (modular verification); frames are computed from the code, not annotated")
	propNote := propNotes[o.prop]
	cov := map[string]interface{}{
		"obligations":              total,
		"discharged":               discharged,
		"checker_cmd":              fmt.Sprintf("bin/govc check -prop %s -tier %s (z3 4.8.12, z3 5.1.0, cvc5 1.0 raced per obligation, timeout %ds)", o.prop, o.tier, o.timeout),
		"trusted_base":             []string{"govc VC generator", "golang.org/x/tools/go/ssa v0.29.0", "z3 4.8.12", "z3 5.1.0", "cvc5 1.0", "trusted stdlib contracts listed under assumptions"},
		"functions_under_contract": fnames,
		"assumed_contracts":        trusted,
		"discharged_by_backend":    byBackend,
		"solver_time_s":            float64(solverMs) / 1000.0,
		"not_claimed_obligations":  notClaimed,
		"vacuity_unknown":          vacuityUnknown,
		"unreachable_end_of_path":  v.unreachable,
		"engine_errors":            engineErrs,
		"bounded":                  []string{},
		"not_covered":              propNote,
		"samples":                  samples,
		"obligation_results":       outs,
		"known_findings":           knownLines,
		"exhaustive":               false,
	}
	ev := map[string]interface{}{
		"property_id": o.prop, "tier": o.tier, "seed": o.seed, "level": "proof", "coverage": cov,
		"assumptions": assumptions, "wall_s": time.Since(start).Seconds(), "violations": nviol,
	}
	writeJSON(filepath.Join(o.out, "evidence", o.prop+".json"), ev)

	fmt.Printf("govc %s tier=%s: %d functions under contract, %d obligations, %d discharged, %d failed, %d not claimed, %.1fs solver, %.1fs wall\n",
		o.prop, o.tier, len(fnames), total, discharged, len(failed), len(notClaimed), float64(solverMs)/1000, time.Since(start).Seconds())
	if o.verbose {
		for _, ob := range failed {
			fmt.Printf("  FAILED %s (%s) at %s: %s\n", ob.Name, ob.Result.Status, ob.Pos, truncate(ob.Result.Raw, 300))
		}
		for _, e := range engineErrs {
			fmt.Println("  ENGINE", e)
		}
	}
	for _, l := range knownLines {
		fmt.Println(l)
	}
	for _, l := range violLines {
		fmt.Println(l)
	}
	if nviol > 0 {
		return 1
	}
	return 0
}

var propNotes = map[string]string{
	"C01": "termination of interpreter-level loops (for/loop/forall over unbounded programs) and Go stack exhaustion are not contract-expressible here (only loop invariants, no ghost fuel); panics inside trusted stdlib callees; memory exhaustion by many moderate allocations; obligations listed under not_claimed_obligations.",
	"C02": "40 functions under functional contract (see MANIFEST level text). Not covered: eq/ne on reals, strings and names (they go through a function literal inside equal that the engine does not inline), cvx, exec, maxlength, matrix, findresource, readstring, the no-op access operators; mul overflow promotion only for multiplicands -1, 0, 1; put/putinterval/copy assume the target array is not the operand stack's backing array; contents of the dictionary built by >>; float arithmetic treated as real arithmetic.",
	"C03": "what a procedure body does is abstract (executeOne used through its contract); iteration counts and forall operand order are not under functional contract; bind (executable names replaced by the operator their topmost binding denotes, literal names and other objects untouched, per element) and name lookup (topmost binding on the dictionary stack, for literal and executable names) are; the effect of bind on nested procedures (recursion, cycles) is covered by the per-element frame only.",
	"C04": "clauses hold while at least four bytes are in memory (composition with refill at buffer boundaries is not proved); that the string under construction never aliases the scanner buffers is an antecedent, not proved; ScanToken dispatch, numbers, names, ASCII85, comments/DSC, String.PS / Name.PS round trips not under contract.",
	"C05": "covered: cipher step, hex/binary detection, hex armour of readByteEexec, mode discipline, closefile, the eexec operator's operand check and dictionary-stack restoration, readstring's result shape. Not covered: transparency of whole programs is the modular consequence of the byte-layer contracts, not a replayed equality; the bytes readstring stores are tied to the input only in clear-text mode (C12.read.tape); the regurgitate path of BeginEexec is not under functional contract.",
	"C06": "covered: charstring decryption, number decoding, path/hint/side-bearing/div/setcurrentpoint/closepath/flex-move steps of decodeCharString. callsubr, seac and the seac assembly in type1.Read (StandardEncoding lookup, base width, accent commands kept). Not covered: return, callothersubr argument handling, flex end curves, translated accent coordinates, dictionary extraction by type1.Read through the interpreter, defaults of Private values, creation date parsing.",
	"C07": "covered: the seven end* block operators, begin* limits, usecmap, range ordering and destination types, table comparators. Not covered: endcmap producing sorted tables (sort.Slice trusted; only the comparators are verified), ReadCMap's choice among several CMaps beyond determinism (C17), CIDSystemInfo/CMapType/WMode (ordinary def operators, C02).",
	"C08": "covered: charstring obfuscation, eexec writer over the ghost output tape (each flush emits the eexec encryption of the buffered bytes, key state carried over; four lead bytes, first cipher byte not white space, one non-hex among them), hex writer over the output tape (two lower-case digits per byte, 39 bytes per line), stem hint encoding, number formats (C20), the StandardEncoding shortcut condition. PFB framing of Font.Write (segment headers, little-endian lengths, end marker) over the observed writer's tape. Not covered: template text, the lengths returned by WritePDF, Length1/2/3 in the font dictionary, termination of the lead-byte search, the explicit encoding array text (writeEncoding through fmt), whole-stream composition of successive Write calls.",
	"C10": "'writing succeeds without error' depends on text/template and Name.PS rejecting non-regular names (a glyph named << is accepted by the reader and refused by the writer: not claimed); re-read equalities go through text/template and the interpreter and are not expressible. Covered: no panic in any writer function for fonts satisfying fontWF, type1.Read establishes fontWF, coordinates within 1/214 (shared with C20).",
	"C11": "'never counting past N+1' on the error-handler path and the two-run equality 'same state as with no budget' are not claimed; Go stack depth is not a value a contract can see; size limits of array/string/dict are covered by C01's make obligations only.",
	"C12": "covered: the clear-text byte layer (refill, readByteRaw, readByte, Next, Peek, Read) over the ghost input tape for every delivery schedule. Not covered: eexec mode, composition with the token layer beyond C04's per-token contracts, split-Execute equivalence, seekable vs non-seekable peek in type1.Read, afm.Read (bufio.Scanner, trusted), pfb (see C14).",
	"C13": "truncation-never-yields-partial-result (depends on definefont being last in the file) and the reader layers above executeScanner (Execute, type1.Read, ReadCMap) are not under the fault contract (afm.Read is, through the trusted model of bufio.Scanner); fmt.Fprintf and text/template are trusted to perform their output through w.Write and to return the first write error.",
	"C14": "the per-iteration step relation over the ghost tape is the specification; it is not folded into one closed formula for the whole output, and the error results (short segment, truncated end marker) are covered by safety and C13 only.",
	"C16": "table contents (glyph list, AGLFN, Zapf Dingbats, compat expansions) are data; decision order of the lookups, '.'-suffix and '_' splitting (strings package), final scalar-range test of the u form, FromUnicode and the name/rune round trip are not under contract.",
	"C17": "encodeCharstrings' map loop is not claimed (inner loops in the body; only the own-key frame is proved); text/template's sorted map iteration, sort.Slice / slices.Sort producing a function of the key set, absence of time/rand/address dependence (not scanned) are trusted; bForall over a dictionary is order dependent by PLRM and outside the anchored files.",
	"C18": "interleavings themselves are outside a sequential verifier: what is proved is freshness of everything reachable from a new interpreter and the lock discipline of names.glyphMap (fields only touched with the mutex held). Not covered: that the map published by getEncode is never written afterwards (read without the lock in encode), a module-wide scan that no package-level variable is written after init, same-results-as-sequential under concurrency.",
	"C19": "GlyphList: length and sort keys are proved, the final order (trusted sort.Slice with the verified comparator) and duplicate-freeness are not; the font-level union of FontBBox/FontBBoxPDF is not under functional contract (only order independence, C17); the matrix arithmetic of the PDF variants is treated as real arithmetic.",
	"C20": "float64 arithmetic on coordinates is treated as exact real arithmetic (assumption 'machine arithmetic treated as mathematical'); bounds are claimed for |x| <= 10^6; that posX/posY equal the byte-level decoding of the emitted numbers rests on appendNumber's contract (value of the appended token) and is not re-parsed from the buffer inside encodeCharString.",
}

func shortName(s string) string {
	s = san(s)
	if len(s) > 90 {
		h := 0
		for _, c := range s {
			h = (h*31 + int(c)) & 0xffffff
		}
		s = fmt.Sprintf("%s_%06x", s[:80], h)
	}
	return s
}

func truncate(s string, n int) string {
	if len(s) > n {
		return s[:n] + "...[truncated]"
	}
	return s
}

func matchKnown(known []KnownFinding, prop string, ob *Obligation, rp *ReplayResult) *KnownFinding {
	for i := range known {
		k := &known[i]
		if k.Status == "fixed" {
			continue
		}
		if k.Property == prop && k.Obligation == ob.Name {
			return k
		}
	}
	return nil
}

type ReplayResult struct {
	Confirmed bool
	Verdict   string
	Detail    string
}

var _ = sort.Strings

// filterModel keeps the scalar definitions of a z3 model (one line each).
func filterModel(m string) string {
	var out []string
	lines := strings.Split(m, "\n")
	for i := 0; i < len(lines); i++ {
		l := strings.TrimSpace(lines[i])
		if strings.HasPrefix(l, "(define-fun ") && strings.HasSuffix(l, " Int") || strings.HasSuffix(l, " Bool") || strings.HasSuffix(l, " Iface") || strings.HasSuffix(l, " Slice") || strings.HasSuffix(l, " Real") {
			if i+1 < len(lines) {
				v := strings.TrimSpace(lines[i+1])
				if len(v) < 200 {
					out = append(out, strings.TrimPrefix(l, "(define-fun ")+" = "+strings.TrimSuffix(v, ")"))
				}
			}
		}
	}
	return strings.Join(out, "\n")
}
