package main

// Contract expressions: Go expressions (plus forall/exists/==>/old sugar)
// evaluated over the symbolic state with Go's own machine semantics.

import (
	"os"
	"sort"
	"fmt"
	"go/ast"
	"go/constant"
	"go/parser"
	"go/token"
	"go/types"
	"strconv"
	"strings"

	"golang.org/x/tools/go/ssa"
)

type Env struct {
	x         *Exec
	c         *Ctx
	st        *State
	old       *State
	vars      map[string]Val // bound names (parameters, results, quantified variables)
	oldVars   map[string]Val // parameter entry values (inside old())
	free      map[string]Val // closure free variables (pointers)
	fn        *ssa.Function  // function whose scope the names live in
	pos       token.Pos      // scope position for local lookups
	loop      *loopInfo
	useCells  bool // resolve parameters/locals through their current cells (loop invariants)
	ghostOnly bool
	inOld     bool
	noWrap    bool // inside mathint(...): + - * on integers are mathematical (no wrap-around)
	cur       *State // inside old(): the state local variables are read from
}

func (e *Env) with(name string, v Val) *Env {
	n := *e
	n.vars = map[string]Val{}
	for k, vv := range e.vars {
		n.vars[k] = vv
	}
	n.vars[name] = v
	return &n
}

// ---------------------------------------------------------------------
// desugaring:  A ==> B,  forall i, j :: P,  exists i :: P

func desugar(s string) string {
	s = strings.TrimSpace(s)
	for _, q := range []string{"forall", "exists"} {
		if strings.HasPrefix(s, q+" ") {
			j := topLevelIndex(s, "::")
			if j < 0 {
				return s
			}
			vars := strings.TrimSpace(s[len(q):j])
			body := desugar(s[j+2:])
			typ := "int"
			if fs := strings.Fields(vars); len(fs) >= 2 && !strings.HasSuffix(fs[len(fs)-2], ",") {
				// typed binders: forall a, b string :: P
				typ = fs[len(fs)-1]
				vars = strings.TrimSpace(strings.TrimSuffix(vars, typ))
			}
			return fmt.Sprintf("__%s(func(%s %s) bool { return %s })", q, vars, typ, body)
		}
	}
	if i := topLevelIndex(s, "==>"); i >= 0 {
		return "__implies(" + desugar(s[:i]) + ", " + desugar(s[i+3:]) + ")"
	}
	// recurse into parenthesised groups
	var b strings.Builder
	i := 0
	for i < len(s) {
		ch := s[i]
		if ch == '"' || ch == '\'' || ch == '`' {
			j := skipLiteral(s, i)
			b.WriteString(s[i:j])
			i = j
			continue
		}
		if ch == '(' || ch == '[' {
			j := matchParen(s, i)
			if j < 0 {
				b.WriteString(s[i:])
				break
			}
			inner := s[i+1 : j]
			parts := splitTopLevel(inner, ',')
			if t := strings.TrimSpace(inner); strings.HasPrefix(t, "forall ") || strings.HasPrefix(t, "exists ") {
				parts = []string{inner}
			}
			for k, p := range parts {
				parts[k] = desugar(p)
			}
			b.WriteByte(ch)
			b.WriteString(strings.Join(parts, ", "))
			b.WriteByte(s[j])
			i = j + 1
			continue
		}
		b.WriteByte(ch)
		i++
	}
	return b.String()
}

func skipLiteral(s string, i int) int {
	q := s[i]
	j := i + 1
	for j < len(s) {
		if s[j] == '\\' && q != '`' {
			j += 2
			continue
		}
		if s[j] == q {
			return j + 1
		}
		j++
	}
	return len(s)
}

func matchParen(s string, i int) int {
	depth := 0
	for j := i; j < len(s); j++ {
		switch s[j] {
		case '"', '\'', '`':
			j = skipLiteral(s, j) - 1
		case '(', '[', '{':
			depth++
		case ')', ']', '}':
			depth--
			if depth == 0 {
				return j
			}
		}
	}
	return -1
}

func topLevelIndex(s, tok string) int {
	depth := 0
	for j := 0; j < len(s); j++ {
		switch s[j] {
		case '"', '\'', '`':
			j = skipLiteral(s, j) - 1
			continue
		case '(', '[', '{':
			depth++
		case ')', ']', '}':
			depth--
		}
		if depth == 0 && strings.HasPrefix(s[j:], tok) {
			return j
		}
	}
	return -1
}

func splitTopLevel(s string, sep byte) []string {
	var out []string
	depth := 0
	start := 0
	for j := 0; j < len(s); j++ {
		switch s[j] {
		case '"', '\'', '`':
			j = skipLiteral(s, j) - 1
			continue
		case '(', '[', '{':
			depth++
		case ')', ']', '}':
			depth--
		}
		if depth == 0 && s[j] == sep {
			out = append(out, s[start:j])
			start = j + 1
		}
	}
	out = append(out, s[start:])
	return out
}

func (cl *Clause) parse() (ast.Expr, error) {
	if cl.Expr != nil {
		return cl.Expr, nil
	}
	src := desugar(cl.Text)
	e, err := parser.ParseExpr(src)
	if err != nil {
		return nil, fmt.Errorf("%s: cannot parse contract expression %q (desugared %q): %v", cl.Line, cl.Text, src, err)
	}
	cl.Expr = e
	return e, nil
}

type contractError struct{ msg string }

func (e contractError) Error() string { return e.msg }

func (x *Exec) evalClause(env *Env, cl *Clause) string {
	x.root().lastUses = cl.Uses
	e, err := cl.parse()
	if err != nil {
		panic(contractError{err.Error()})
	}
	defer func() {
		if r := recover(); r != nil {
			if u, ok := r.(unsupported); ok {
				panic(contractError{fmt.Sprintf("%s: in contract %q: %s", cl.Line, cl.Text, string(u))})
			}
			panic(r)
		}
	}()
	if os.Getenv("GOVC_DEBUG") != "" {
		fmt.Fprintf(os.Stderr, "evalClause %s %s: %s\n", x.key, cl.Line, truncate(cl.Text, 100))
	}
	v := env.eval(e, types.Typ[types.Bool])
	if !isBool(v.T) {
		panic(contractError{fmt.Sprintf("%s: contract clause is not boolean: %s", cl.Line, cl.Text)})
	}
	return v.S
}

func (x *Exec) evalExprClause(env *Env, cl *Clause) Val {
	e, err := cl.parse()
	if err != nil {
		panic(contractError{err.Error()})
	}
	return env.eval(e, types.Typ[types.Int])
}

// loopEnv: environment for loop invariants (names denote current cell values).
func (x *Exec) loopEnv(li *loopInfo, st *State) *Env {
	pos := x.loopPos(li)
	if li.stmt != nil {
		switch s := li.stmt.(type) {
		case *ast.ForStmt:
			pos = s.Body.Lbrace
		case *ast.RangeStmt:
			pos = s.Body.Lbrace
		}
	}
	return &Env{x: x, c: x.c, st: st, old: x.entry, vars: map[string]Val{}, oldVars: x.params, free: x.freeVals, fn: x.fn, pos: pos, loop: li, useCells: true}
}

// ---------------------------------------------------------------------
// evaluation

func (e *Env) fail(format string, args ...interface{}) {
	panic(unsupported(fmt.Sprintf(format, args...)))
}

func (e *Env) eval(ex ast.Expr, hint types.Type) Val {
	c := e.c
	switch ex := ex.(type) {
	case *ast.ParenExpr:
		return e.eval(ex.X, hint)
	case *ast.BasicLit:
		return e.literal(ex, hint)
	case *ast.Ident:
		return e.ident(ex, hint)
	case *ast.UnaryExpr:
		switch ex.Op {
		case token.NOT:
			v := e.eval(ex.X, types.Typ[types.Bool])
			return Val{T: v.T, S: not(v.S)}
		case token.SUB:
			if bl, ok := ex.X.(*ast.BasicLit); ok && hint != nil {
				v := e.literal(bl, hint)
				return Val{T: v.T, S: c.neg(v.T, v.S)}
			}
			v := e.eval(ex.X, hint)
			return Val{T: v.T, S: c.neg(v.T, v.S)}
		case token.XOR:
			v := e.eval(ex.X, hint)
			return Val{T: v.T, S: c.bitnot(v.T, v.S)}
		case token.ADD:
			return e.eval(ex.X, hint)
		}
	case *ast.BinaryExpr:
		return e.binary(ex, hint)
	case *ast.CallExpr:
		return e.callExpr(ex, hint)
	case *ast.SelectorExpr:
		return e.selector(ex, hint)
	case *ast.IndexExpr:
		return e.indexExpr(ex)
	case *ast.SliceExpr:
		return e.sliceExpr(ex)
	case *ast.StarExpr:
		v := e.eval(ex.X, nil)
		return e.x.loadGhost(e.st, v)
	case *ast.TypeAssertExpr:
		v := e.eval(ex.X, nil)
		t := e.typeOf(ex.Type)
		return Val{T: t, S: e.x.payload(e.st, v.S, t)}
	}
	e.fail("contract expression %T", ex)
	return Val{}
}

func (x *Exec) loadGhost(st *State, addr Val) Val {
	g := x.ghost
	x.ghost = true
	defer func() { x.ghost = g }()
	return x.load(st, addr, token.NoPos)
}

func (e *Env) literal(bl *ast.BasicLit, hint types.Type) Val {
	c := e.c
	switch bl.Kind {
	case token.INT, token.CHAR:
		var cv constant.Value
		cv = constant.MakeFromLiteral(bl.Value, bl.Kind, 0)
		t := hint
		if t == nil || isBool(t) {
			t = types.Typ[types.Int]
		}
		if isFloat(t) {
			f, _ := constant.Float64Val(constant.ToFloat(cv))
			return Val{T: t, S: c.floatConst(f)}
		}
		if _, _, ok := intInfo(t); !ok {
			t = types.Typ[types.Int]
		}
		return c.constVal(t, cv)
	case token.FLOAT:
		cv := constant.MakeFromLiteral(bl.Value, bl.Kind, 0)
		t := hint
		if t == nil || !isFloat(t) {
			t = types.Typ[types.Float64]
		}
		f, _ := constant.Float64Val(cv)
		return Val{T: t, S: c.floatConst(f)}
	case token.STRING:
		s, err := strconv.Unquote(bl.Value)
		if err != nil {
			e.fail("bad string literal %s", bl.Value)
		}
		t := hint
		if t == nil || !isString(t) {
			t = types.Typ[types.String]
		}
		return Val{T: t, S: c.strConst(s)}
	}
	e.fail("literal %s", bl.Value)
	return Val{}
}

func isUntypedConstExpr(ex ast.Expr) bool {
	switch ex := ex.(type) {
	case *ast.BasicLit:
		return true
	case *ast.ParenExpr:
		return isUntypedConstExpr(ex.X)
	case *ast.UnaryExpr:
		return isUntypedConstExpr(ex.X)
	case *ast.BinaryExpr:
		return isUntypedConstExpr(ex.X) && isUntypedConstExpr(ex.Y)
	}
	return false
}

func (e *Env) binary(ex *ast.BinaryExpr, hint types.Type) Val {
	c := e.c
	boolT := types.Typ[types.Bool]
	switch ex.Op {
	case token.LAND:
		if lv, isLive := e.liveCall(ex.X); isLive && !lv {
			return Val{T: boolT, S: "false"} // "live(x) && P": P is not evaluated when x is not in scope on this path
		}
		l, r := e.eval(ex.X, boolT), e.eval(ex.Y, boolT)
		return Val{T: boolT, S: and(l.S, r.S)}
	case token.LOR:
		l, r := e.eval(ex.X, boolT), e.eval(ex.Y, boolT)
		return Val{T: boolT, S: or(l.S, r.S)}
	}
	var l, r Val
	opHint := hint
	if isCompareOp(ex.Op) {
		opHint = nil
	}
	if isUntypedConstExpr(ex.X) && !isUntypedConstExpr(ex.Y) {
		r = e.eval(ex.Y, opHint)
		l = e.eval(ex.X, r.T)
	} else {
		l = e.eval(ex.X, opHint)
		if ex.Op == token.SHL || ex.Op == token.SHR {
			r = e.eval(ex.Y, types.Typ[types.Uint])
		} else {
			r = e.eval(ex.Y, l.T)
		}
	}
	// chained comparison sugar is not supported; comparisons:
	if isCompareOp(ex.Op) {
		if ex.Op == token.EQL || ex.Op == token.NEQ {
			g := e.x.ghost
			e.x.ghost = true
			s := e.x.equal(e.st, l, r, token.NoPos)
			e.x.ghost = g
			if ex.Op == token.NEQ {
				s = not(s)
			}
			return Val{T: boolT, S: s}
		}
		return Val{T: boolT, S: c.compare(ex.Op, l.T, l.S, r.S)}
	}
	if e.noWrap && !c.mode.BV {
		if _, _, isInt := intInfo(l.T); isInt {
			switch ex.Op {
			case token.ADD:
				return Val{T: l.T, S: sx("+", l.S, r.S)}
			case token.SUB:
				return Val{T: l.T, S: sx("-", l.S, r.S)}
			case token.MUL:
				return Val{T: l.T, S: sx("*", l.S, r.S)}
			}
		}
	}
	res, _ := c.binop(ex.Op, l.T, l.S, r.S, r.T)
	return Val{T: l.T, S: res}
}

func (e *Env) typeOf(ex ast.Expr) types.Type {
	pkg := e.pkg()
	switch ex := ex.(type) {
	case *ast.Ident:
		if _, obj := e.scopeLookup(ex.Name); obj != nil {
			if tn, ok := obj.(*types.TypeName); ok {
				return tn.Type()
			}
		}
		if obj := types.Universe.Lookup(ex.Name); obj != nil {
			if tn, ok := obj.(*types.TypeName); ok {
				return tn.Type()
			}
		}
	case *ast.StarExpr:
		return types.NewPointer(e.typeOf(ex.X))
	case *ast.ArrayType:
		if ex.Len == nil {
			return types.NewSlice(e.typeOf(ex.Elt))
		}
	case *ast.SelectorExpr:
		if id, ok := ex.X.(*ast.Ident); ok {
			for _, imp := range pkg.Imports() {
				if imp.Name() == id.Name {
					if tn, ok := imp.Scope().Lookup(ex.Sel.Name).(*types.TypeName); ok {
						return tn.Type()
					}
				}
			}
		}
	case *ast.ParenExpr:
		return e.typeOf(ex.X)
	}
	e.fail("type expression %s", exprString(ex))
	return nil
}

func exprString(ex ast.Expr) string { return types.ExprString(ex) }

func (e *Env) pkg() *types.Package {
	if e.fn != nil {
		f := e.fn
		for f.Parent() != nil {
			f = f.Parent()
		}
		if f.Pkg != nil {
			return f.Pkg.Pkg
		}
		if f.Object() != nil {
			return f.Object().Pkg()
		}
	}
	return nil
}

func (e *Env) scopeLookup(name string) (*types.Scope, types.Object) {
	pkg := e.pkg()
	if pkg == nil {
		return nil, nil
	}
	sc := pkg.Scope()
	if e.pos.IsValid() {
		if inner := sc.Innermost(e.pos); inner != nil {
			s, obj := inner.LookupParent(name, e.pos)
			if obj != nil {
				return s, obj
			}
		}
		// package scope's Innermost only works for file scopes: search them
		for i := 0; i < sc.NumChildren(); i++ {
			fs := sc.Child(i)
			if fs.Contains(e.pos) {
				if inner := fs.Innermost(e.pos); inner != nil {
					if s, obj := inner.LookupParent(name, e.pos); obj != nil {
						return s, obj
					}
				}
			}
		}
	}
	s, obj := sc.LookupParent(name, token.NoPos)
	return s, obj
}

// resolvable: would ident find this name (bound name, range key, scope,
// universe, or a local declared further down)?
func (e *Env) resolvable(name string) bool {
	switch name {
	case "true", "false", "nil", "rangeidx":
		return true
	}
	if _, ok := e.vars[name]; ok {
		return true
	}
	if _, obj := e.scopeLookup(name); obj != nil {
		return true
	}
	if types.Universe.Lookup(name) != nil {
		return true
	}
	if e.x != nil && e.useCells {
		for _, a := range e.x.allocByPos {
			if a.Comment == name {
				if cv, ok := e.st.cells[e.x.cellKey(a)]; ok && cv.S != "" {
					return true
				}
			}
		}
	}
	return false
}

func (e *Env) ident(id *ast.Ident, hint types.Type) Val {
	c := e.c
	switch id.Name {
	case "true":
		return Val{T: types.Typ[types.Bool], S: "true"}
	case "false":
		return Val{T: types.Typ[types.Bool], S: "false"}
	case "nil":
		if hint != nil {
			return Val{T: hint, S: c.zero(hint)}
		}
		return Val{T: types.Typ[types.UntypedNil], S: "0"}
	}
	if v, ok := e.vars[id.Name]; ok {
		return v
	}
	if e.x != nil && e.fn != nil && !e.resolvable(id.Name) {
		// the variable may have been renamed in the code since the contract
		// was written (renames.go): take the one current name that resolves here
		var hit []string
		for _, nn := range e.x.p.renamedCandidates(e.fn, id.Name) {
			if e.resolvable(nn) {
				hit = append(hit, nn)
			}
		}
		if len(hit) == 1 {
			return e.ident(&ast.Ident{NamePos: id.NamePos, Name: hit[0]}, hint)
		}
	}
	// range key of the loop the invariant belongs to: next index to be processed
	if e.loop != nil && e.useCells {
		if rs, ok := e.loop.stmt.(*ast.RangeStmt); ok {
			// "rangeidx" names the number of elements already processed when the loop has no (named) key
			if k, ok := rs.Key.(*ast.Ident); (ok && k.Name == id.Name && k.Name != "_") || id.Name == "rangeidx" {
				if rng := stringRangeOf(e.loop); rng != nil {
					// range over string: the byte position the next iteration starts at
					if pv, ok := e.st.cells[e.x.strPosKey(rng)]; ok && pv.S != "" {
						return Val{T: types.Typ[types.Int], S: pv.S}
					}
				}
				for _, in := range e.loop.header.Instrs {
					if u, ok := in.(*ssa.UnOp); ok && u.Op == token.MUL {
						if a, ok := u.X.(*ssa.Alloc); ok && a.Comment == "rangeindex" {
							cur := e.st.cells[e.x.cellKey(a)]
							one := c.intConst(types.Typ[types.Int], newBig(1))
							r, _ := c.binop(token.ADD, types.Typ[types.Int], cur.S, one, nil)
							return Val{T: types.Typ[types.Int], S: r}
						}
					}
				}
			}
		}
	}
	_, obj := e.scopeLookup(id.Name)
	if obj == nil {
		obj = types.Universe.Lookup(id.Name)
	}
	if obj == nil && e.x != nil && e.useCells {
		// a local declared further down in the loop body (exit-when / back-when clauses)
		for _, a := range e.x.allocByPos {
			if a.Comment == id.Name {
				if cv, ok := e.st.cells[e.x.cellKey(a)]; ok && cv.S != "" {
					return Val{T: a.Type().(*types.Pointer).Elem(), S: cv.S}
				}
			}
		}
	}
	if obj == nil {
		e.fail("unknown identifier %s in contract", id.Name)
	}
	switch obj := obj.(type) {
	case *types.Const:
		t := obj.Type()
		if b, ok := t.(*types.Basic); ok && b.Info()&types.IsUntyped != 0 {
			if hint != nil && !isBool(hint) || (hint != nil && b.Kind() == types.UntypedBool) {
				t = hint
			} else {
				t = types.Default(t)
			}
			if (b.Kind() == types.UntypedInt || b.Kind() == types.UntypedRune) && !isFloat(t) {
				if _, _, ok := intInfo(t); !ok {
					t = types.Typ[types.Int]
				}
			}
		}
		return c.constVal(t, obj.Val())
	case *types.Var:
		if obj.Parent() == obj.Pkg().Scope() {
			// package-level variable
			return e.globalVar(obj)
		}
		// local / parameter of the function in scope
		if e.inOld {
			if v, ok := e.oldVars[id.Name]; ok {
				return v
			}
		}
		if e.x != nil {
			if a, ok := e.x.allocByPos[obj.Pos()]; ok {
				lst := e.st
				if e.inOld && e.cur != nil {
					lst = e.cur // locals other than parameters have no "old" value: use the current one
				}
				if !a.Heap || privateAlloc(a) {
					if v, ok := lst.cells[e.x.cellKey(a)]; ok && v.S != "" {
						return Val{T: obj.Type(), S: v.S}
					}
				} else if pv, ok := e.x.vals[a]; ok {
					return e.x.loadGhost(e.st, pv)
				}
			}
		}
		if fv, ok := e.free[id.Name]; ok {
			return e.x.loadGhost(e.st, fv)
		}
		if v, ok := e.oldVars[id.Name]; ok {
			return v
		}
		e.fail("variable %s is not available here", id.Name)
	case *types.Nil:
		return Val{T: types.Typ[types.UntypedNil], S: "0"}
	case *types.Func:
		e.fail("function value %s in contract", id.Name)
	}
	e.fail("identifier %s (%T) in contract", id.Name, obj)
	return Val{}
}

func (e *Env) selector(ex *ast.SelectorExpr, hint types.Type) Val {
	c := e.c
	// package-qualified constant / variable
	if id, ok := ex.X.(*ast.Ident); ok {
		if _, isVar := e.vars[id.Name]; !isVar {
			if _, obj := e.scopeLookup(id.Name); obj != nil {
				if pn, ok := obj.(*types.PkgName); ok {
					o := pn.Imported().Scope().Lookup(ex.Sel.Name)
					switch o := o.(type) {
					case *types.Const:
						t := o.Type()
						if b, ok := t.(*types.Basic); ok && b.Info()&types.IsUntyped != 0 {
							if hint != nil {
								t = hint
							} else {
								t = types.Default(t)
							}
						}
						return c.constVal(t, o.Val())
					case *types.Var:
						return e.globalVar(o)
					}
					e.fail("qualified identifier %s.%s", id.Name, ex.Sel.Name)
				}
			}
		}
	}
	base := e.eval(ex.X, nil)
	t := base.T
	if pt, ok := t.Underlying().(*types.Pointer); ok {
		st := pt.Elem()
		stt, ok := st.Underlying().(*types.Struct)
		if !ok {
			e.fail("selector on pointer to %s", st)
		}
		idx, ft := fieldIndex(stt, ex.Sel.Name)
		if idx < 0 {
			e.fail("no field %s in %s", ex.Sel.Name, st)
		}
		r, _ := c.fieldRegion(st, idx)
		fv := sx("select", c.region(e.st, r), base.S)
		// heap values are well-typed (references never exceed the allocation counter of their state)
		c.assume(c.wfAt(ft, fv, c.alloc(e.st)))
		return Val{T: ft, S: fv}
	}
	if stt, ok := t.Underlying().(*types.Struct); ok {
		idx, ft := fieldIndex(stt, ex.Sel.Name)
		if idx < 0 {
			e.fail("no field %s in %s", ex.Sel.Name, t)
		}
		name := c.structSort(t)
		return Val{T: ft, S: sx(structFieldSel(name, idx, stt), base.S)}
	}
	e.fail("selector %s on %s", ex.Sel.Name, t)
	return Val{}
}

func fieldIndex(st *types.Struct, name string) (int, types.Type) {
	for i := 0; i < st.NumFields(); i++ {
		if st.Field(i).Name() == name {
			return i, st.Field(i).Type()
		}
	}
	return -1, nil
}

func (e *Env) indexExpr(ex *ast.IndexExpr) Val {
	c := e.c
	base := e.eval(ex.X, nil)
	switch bt := base.T.Underlying().(type) {
	case *types.Slice:
		iv := e.eval(ex.Index, types.Typ[types.Int])
		idx := c.toIdx(iv.T, iv.S)
		r, _ := c.elemRegion(bt.Elem())
		return Val{T: bt.Elem(), S: sx("select", sx("select", c.region(e.st, r), sRef(base.S)), sx("+", sOff(base.S), idx))}
	case *types.Array:
		iv := e.eval(ex.Index, types.Typ[types.Int])
		return Val{T: bt.Elem(), S: sx("select", base.S, c.toIdx(iv.T, iv.S))}
	case *types.Basic:
		if isString(base.T) {
			iv := e.eval(ex.Index, types.Typ[types.Int])
			return Val{T: types.Typ[types.Uint8], S: sx("gstr_at", base.S, c.toIdx(iv.T, iv.S))}
		}
	case *types.Map:
		kv := e.eval(ex.Index, bt.Key())
		ks := kv.S
		if isIface(bt.Key()) && !isIface(kv.T) {
			ks = e.x.makeIface(kv, bt.Key()).S
		}
		has, val, _ := c.mapRegions(base.T)
		h := and(not(eq(base.S, "0")), sx("select", sx("select", c.region(e.st, has), base.S), ks))
		v := sx("select", sx("select", c.region(e.st, val), base.S), ks)
		return Val{T: bt.Elem(), S: ite(h, v, c.zero(bt.Elem()))}
	case *types.Pointer:
		if at, ok := bt.Elem().Underlying().(*types.Array); ok {
			iv := e.eval(ex.Index, types.Typ[types.Int])
			r, _ := c.elemRegion(at.Elem())
			return Val{T: at.Elem(), S: sx("select", sx("select", c.region(e.st, r), base.S), c.toIdx(iv.T, iv.S))}
		}
	}
	e.fail("index expression on %s", base.T)
	return Val{}
}

func (e *Env) sliceExpr(ex *ast.SliceExpr) Val {
	c := e.c
	base := e.eval(ex.X, nil)
	if _, ok := base.T.Underlying().(*types.Slice); !ok {
		e.fail("slice expression on %s", base.T)
	}
	lo, hi := "0", sLen(base.S)
	if ex.Low != nil {
		v := e.eval(ex.Low, types.Typ[types.Int])
		lo = c.toIdx(v.T, v.S)
	}
	if ex.High != nil {
		v := e.eval(ex.High, types.Typ[types.Int])
		hi = c.toIdx(v.T, v.S)
	}
	return Val{T: base.T, S: mkSlice(sRef(base.S), sx("+", sOff(base.S), lo), sx("-", hi, lo), sx("-", sCap(base.S), lo))}
}

func (e *Env) callExpr(ex *ast.CallExpr, hint types.Type) Val {
	c := e.c
	boolT := types.Typ[types.Bool]
	intT := types.Typ[types.Int]
	if id, ok := ex.Fun.(*ast.Ident); ok {
		switch id.Name {
		case "__implies":
			a, b := e.eval(ex.Args[0], boolT), e.eval(ex.Args[1], boolT)
			return Val{T: boolT, S: implies(a.S, b.S)}
		case "__forall", "__exists":
			fl := ex.Args[0].(*ast.FuncLit)
			env := e
			var binders []string
			var ranges []string
			for _, f := range fl.Type.Params.List {
				bt := types.Type(intT)
				if tid, ok := f.Type.(*ast.Ident); !ok || tid.Name != "int" {
					bt = e.typeOf(f.Type)
				}
				for _, n := range f.Names {
					bn := c.fresh("q_" + n.Name)
					binders = append(binders, fmt.Sprintf("(%s %s)", bn, c.sortOf(bt)))
					env = env.with(n.Name, Val{T: bt, S: bn})
					ranges = append(ranges, c.wfAt(bt, bn, c.alloc(e.st)))
				}
			}
			c.inQuant++
			body := func() Val {
				defer func() { c.inQuant-- }()
				return env.eval(fl.Body.List[0].(*ast.ReturnStmt).Results[0], boolT)
			}()
			q := "forall"
			inner := implies(and(ranges...), body.S)
			if id.Name == "__exists" {
				q = "exists"
				inner = and(append(ranges, body.S)...)
			}
			if q == "forall" {
				var bvs []string
				for _, b := range binders {
					bvs = append(bvs, strings.Fields(b[1:])[0])
				}
				if pat := selectPatterns(body.S, bvs); pat != "" {
					inner = fmt.Sprintf("(! %s :pattern (%s))", inner, pat)
				}
			}
			return Val{T: boolT, S: fmt.Sprintf("(%s (%s) %s)", q, strings.Join(binders, " "), inner)}
		case "held": // ghost: the package's mutex is held
			return Val{T: boolT, S: c.region(e.st, "$held")}
		case "mathint": // mathint(E): E with + - * on integers taken over the mathematical integers
			n := *e
			n.noWrap = true
			return n.eval(ex.Args[0], hint)
		case "obs": // ghost: the observed writer (the one whose accepted bytes make up the output tape)
			t := hint
			if t == nil {
				t = types.NewInterfaceType(nil, nil)
			}
			return Val{T: t, S: c.obsConst()}
		case "leafwriter": // the dynamic type is a standard-library writer that forwards to no other writer
			a := e.eval(ex.Args[0], nil)
			return Val{T: boolT, S: c.leafWriter(a.S)}
		case "opos": // ghost: number of bytes accepted by the underlying writers so far
			return Val{T: intT, S: c.fromIdx(intT, c.region(e.st, "$opos"))}
		case "otape": // ghost: the k-th byte of the output tape
			k := e.eval(ex.Args[0], intT)
			c.declareFun("gotape", []string{"Int"}, c.intSort(8))
			return Val{T: types.Typ[types.Uint8], S: sx("gotape", c.toIdx(k.T, k.S))}
		case "tpos": // ghost: number of input bytes delivered by the underlying readers so far
			return Val{T: intT, S: c.fromIdx(intT, c.region(e.st, "$tpos"))}
		case "tape": // ghost: the k-th byte of the input tape
			k := e.eval(ex.Args[0], intT)
			c.declareFun("gtape", []string{"Int"}, c.intSort(8))
			return Val{T: types.Typ[types.Uint8], S: sx("gtape", c.toIdx(k.T, k.S))}
		case "rfault": // ghost: some read from an underlying io.Reader has failed (not io.EOF) so far
			return Val{T: boolT, S: c.region(e.st, "$rfault")}
		case "wfault": // ghost: some write to an underlying io.Writer has failed so far
			return Val{T: boolT, S: c.region(e.st, "$wfault")}
		case "live":
			lv, _ := e.liveCall(ex)
			if lv {
				return Val{T: boolT, S: "true"}
			}
			return Val{T: boolT, S: "false"}
		case "prev":
			// prev(e): e at the head of the current iteration (only in back-when / exit-when clauses)
			if e.loop == nil || e.x == nil || e.x.loopSnap[e.loop.header] == nil {
				e.fail("prev() outside a loop clause")
			}
			n := *e
			n.st = e.x.loopSnap[e.loop.header]
			return n.eval(ex.Args[0], hint)
		case "outer":
			// outer(e): e at the head of the current iteration of the enclosing loop
			// (for the clauses of an inner loop)
			if e.loop == nil || e.x == nil {
				e.fail("outer() outside a loop clause")
			}
			var enc *loopInfo
			for _, lj := range e.x.loopList {
				if lj != e.loop && lj.body[e.loop.header] && (enc == nil || len(lj.body) < len(enc.body)) {
					enc = lj
				}
			}
			if enc == nil || e.x.loopSnap[enc.header] == nil {
				e.fail("outer(): no enclosing loop")
			}
			n := *e
			n.st = e.x.loopSnap[enc.header]
			n.loop = enc
			return n.eval(ex.Args[0], hint)
		case "old":
			n := *e
			if n.cur == nil {
				n.cur = e.st
			}
			n.st = e.old
			n.inOld = true
			n.useCells = false
			if e.oldVars != nil {
				n.vars = map[string]Val{}
				for k, v := range e.vars {
					n.vars[k] = v
				}
				for k, v := range e.oldVars {
					n.vars[k] = v
				}
			}
			return n.eval(ex.Args[0], hint)
		case "len":
			a := e.eval(ex.Args[0], nil)
			switch a.T.Underlying().(type) {
			case *types.Slice:
				return Val{T: intT, S: c.fromIdx(intT, sLen(a.S))}
			case *types.Basic:
				return Val{T: intT, S: c.fromIdx(intT, sx("gstr_len", a.S))}
			case *types.Map:
				_, _, ln := c.mapRegions(a.T)
				return Val{T: intT, S: c.fromIdx(intT, ite(eq(a.S, "0"), "0", sx("select", c.region(e.st, ln), a.S)))}
			case *types.Array:
				return Val{T: intT, S: c.intConst(intT, newBig(a.T.Underlying().(*types.Array).Len()))}
			}
			e.fail("len of %s", a.T)
		case "cap":
			a := e.eval(ex.Args[0], nil)
			return Val{T: intT, S: c.fromIdx(intT, sCap(a.S))}
		case "isType": // isType(x, T): dynamic type test on an interface value
			a := e.eval(ex.Args[0], nil)
			return Val{T: boolT, S: e.x.isType(a.S, e.typeOf(ex.Args[1]))}
		case "has": // has(m, k): key present
			m := e.eval(ex.Args[0], nil)
			mt := m.T.Underlying().(*types.Map)
			k := e.eval(ex.Args[1], mt.Key())
			has, _, _ := c.mapRegions(m.T)
			return Val{T: boolT, S: and(not(eq(m.S, "0")), sx("select", sx("select", c.region(e.st, has), m.S), k.S))}
		case "ref": // ref(x): the heap reference of a slice/map/pointer (aliasing specs)
			a := e.eval(ex.Args[0], nil)
			if _, ok := a.T.Underlying().(*types.Slice); ok {
				return Val{T: intT, S: c.fromIdx(intT, sRef(a.S))}
			}
			return Val{T: intT, S: c.fromIdx(intT, a.S)}
		case "onlyrefs":
			// onlyrefs(a, b, ...): among the arrays that existed in the old state, only the
			// backing arrays of the listed slices (all of one element type) may differ from
			// the old state; onlyrefs(T(nil)...) is not needed: with one argument whose
			// reference is 0 (nil slice) nothing that existed may differ.
			if len(ex.Args) == 0 {
				e.fail("onlyrefs needs at least one slice argument")
			}
			var refs []string
			var elem types.Type
			for _, a := range ex.Args {
				v := e.eval(a, nil)
				sl, ok := v.T.Underlying().(*types.Slice)
				if !ok {
					e.fail("onlyrefs: %s is not a slice", v.T)
				}
				elem = sl.Elem()
				refs = append(refs, sRef(v.S))
			}
			r, _ := c.elemRegion(elem)
			bn := c.fresh("q_r")
			var ne []string
			ne = append(ne, sx("<=", "0", bn), sx("<=", bn, c.alloc(e.old)))
			for _, rf := range refs {
				ne = append(ne, not(eq(bn, rf)))
			}
			now, was := sx("select", c.region(e.st, r), bn), sx("select", c.region(e.old, r), bn)
			return Val{T: boolT, S: fmt.Sprintf("(forall ((%s Int)) (! (=> %s (= %s %s)) :pattern (%s)))", bn, and(ne...), now, was, now)}
		case "sameslice": // sameslice(a, b): the same slice header (array, offset, length, capacity)
			a := e.eval(ex.Args[0], nil)
			b := e.eval(ex.Args[1], nil)
			return Val{T: boolT, S: eq(a.S, b.S)}
		case "off":
			a := e.eval(ex.Args[0], nil)
			return Val{T: intT, S: c.fromIdx(intT, sOff(a.S))}
		case "local": // local(name, k): the k-th local variable called name, in source order (for names declared in several scopes)
			id2, ok1 := ex.Args[0].(*ast.Ident)
			lit, ok2 := ex.Args[1].(*ast.BasicLit)
			if !ok1 || !ok2 || e.x == nil {
				e.fail("local(name, k): bad arguments")
			}
			k, _ := strconv.Atoi(lit.Value)
			if nn, k2 := e.x.p.renamedLocal(e.x.fn, id2.Name, k); nn != id2.Name || k2 != k {
				id2 = &ast.Ident{NamePos: id2.NamePos, Name: nn}
				k = k2
			}
			var cands []*ssa.Alloc
			for _, a := range e.x.allocByPos {
				if a.Comment == id2.Name {
					cands = append(cands, a)
				}
			}
			sort.Slice(cands, func(i, j int) bool { return cands[i].Pos() < cands[j].Pos() })
			if k < 1 || k > len(cands) {
				e.fail("local(%s, %d): only %d such locals", id2.Name, k, len(cands))
			}
			a := cands[k-1]
			cv, ok := e.st.cells[e.x.cellKey(a)]
			et := a.Type().(*types.Pointer).Elem()
			if !ok || cv.S == "" {
				// not assigned on this path: an arbitrary value
				return Val{T: et, S: c.freshSort("dead_"+id2.Name, c.sortOf(et))}
			}
			return Val{T: et, S: cv.S}
		case "fresh": // fresh(x): reference allocated since the old state
			a := e.eval(ex.Args[0], nil)
			r := a.S
			if _, ok := a.T.Underlying().(*types.Slice); ok {
				r = sRef(a.S)
			}
			return Val{T: boolT, S: and(sx(">", r, c.alloc(e.old)), sx("<=", r, c.alloc(e.st)))}
		}
		// named predicate of the contract language
		if pk := e.pkg(); pk != nil {
			if d := e.x.p.defines[pk.Name()+"."+id.Name]; d != nil {
				if len(ex.Args) != len(d.Params) {
					e.fail("define %s: wrong number of arguments", d.Name)
				}
				body, err := d.Body.parse()
				if err != nil {
					panic(contractError{err.Error()})
				}
				n := *e
				n.vars = map[string]Val{}
				for i, a := range ex.Args {
					n.vars[d.Params[i]] = e.eval(a, nil)
				}
				for k, v := range e.vars {
					if strings.HasPrefix(k, "\x00q:") {
						n.vars[k] = v
					}
				}
				n.useCells = false
				n.oldVars = nil
				return n.eval(body, hint)
			}
		}
		// conversion T(x)?
		if _, obj := e.scopeLookup(id.Name); obj != nil {
			if tn, ok := obj.(*types.TypeName); ok {
				return e.conversion(tn.Type(), ex.Args[0])
			}
			if fo, ok := obj.(*types.Func); ok {
				return e.specCall(fo, ex.Args)
			}
		}
		if obj := types.Universe.Lookup(id.Name); obj != nil {
			if tn, ok := obj.(*types.TypeName); ok {
				return e.conversion(tn.Type(), ex.Args[0])
			}
		}
		e.fail("call of %s in contract", id.Name)
	}
	if sel, ok := ex.Fun.(*ast.SelectorExpr); ok {
		// pkg.Func(...) or pkg.Type(x)
		if id, ok := sel.X.(*ast.Ident); ok {
			if _, obj := e.scopeLookup(id.Name); obj != nil {
				if pn, ok := obj.(*types.PkgName); ok {
					o := pn.Imported().Scope().Lookup(sel.Sel.Name)
					if tn, ok := o.(*types.TypeName); ok {
						return e.conversion(tn.Type(), ex.Args[0])
					}
					if fo, ok := o.(*types.Func); ok {
						return e.specCall(fo, ex.Args)
					}
				}
			}
		}
		// method call on a value: only ghost/inlinable methods
		recv := e.eval(sel.X, nil)
		ms := types.NewMethodSet(recv.T)
		if m := ms.Lookup(e.pkg(), sel.Sel.Name); m != nil {
			if fo, ok := m.Obj().(*types.Func); ok {
				return e.specCallVals(fo, append([]Val{recv}, e.evalArgs(fo, ex.Args, 0)...))
			}
		}
		e.fail("method call %s in contract", exprString(ex.Fun))
	}
	if _, ok := ex.Fun.(*ast.ArrayType); ok {
		return e.conversion(e.typeOf(ex.Fun), ex.Args[0])
	}
	if p, ok := ex.Fun.(*ast.ParenExpr); ok {
		return e.conversion(e.typeOf(p.X), ex.Args[0])
	}
	e.fail("call expression %s", exprString(ex.Fun))
	return Val{}
}

func (e *Env) conversion(to types.Type, arg ast.Expr) Val {
	c := e.c
	v := e.eval(arg, to)
	from := v.T
	if types.Identical(from, to) {
		return Val{T: to, S: v.S}
	}
	_, _, fi := intInfo(from)
	_, _, ti := intInfo(to)
	switch {
	case (fi || isFloat(from)) && (ti || isFloat(to)):
		return Val{T: to, S: c.convert(from, to, v.S)}
	case isIface(to):
		return e.x.makeIface(v, to)
	case isString(to) && isByteSlice(from):
		return Val{T: to, S: e.x.bytesToString(e.st, v.S)}
	}
	if types.Identical(from.Underlying(), to.Underlying()) {
		return Val{T: to, S: v.S}
	}
	if b, ok := from.(*types.Basic); ok && b.Kind() == types.UntypedNil {
		return Val{T: to, S: c.zero(to)}
	}
	e.fail("conversion %s -> %s in contract", from, to)
	return Val{}
}

func (e *Env) evalArgs(fo *types.Func, args []ast.Expr, skip int) []Val {
	sig := fo.Type().(*types.Signature)
	var out []Val
	for i, a := range args {
		var hint types.Type
		if i < sig.Params().Len() {
			hint = sig.Params().At(i).Type()
		}
		v := e.eval(a, hint)
		if hint != nil && isIface(hint) && !isIface(v.T) {
			v = e.x.makeIface(v, hint)
		}
		if hint != nil && v.T != nil {
			if b, ok := v.T.(*types.Basic); ok && b.Kind() == types.UntypedNil {
				v = Val{T: hint, S: c_zero(e.c, hint)}
			}
		}
		out = append(out, v)
	}
	return out
}

func c_zero(c *Ctx, t types.Type) string { return c.zero(t) }

// specCall: a call of a Go function inside a contract.  Ghost functions
// (declared in *_verif.go) and functions marked inline are inlined from
// their SSA; pure functions with a contract become applications.
func (e *Env) specCall(fo *types.Func, args []ast.Expr) Val {
	return e.specCallVals(fo, e.evalArgs(fo, args, 0))
}

func (e *Env) specCallVals(fo *types.Func, args []Val) Val {
	x := e.x
	fn := x.p.ssaProg.FuncValue(fo)
	if fn == nil {
		e.fail("no SSA for %s", fo.FullName())
	}
	if len(fn.Blocks) == 0 || (fn.Pkg != nil && !x.p.inModule(fn.Pkg.Pkg.Path())) {
		switch fo.FullName() {
		case "bytes.Compare":
			return x.heapPureApp(e.st, "bytes_Compare", args, fn.Signature.Results().At(0).Type())
		case "bytes.Equal":
			return x.heapPureApp(e.st, "bytes_Equal", args, fn.Signature.Results().At(0).Type())
		}
		e.fail("spec call of external function %s", fo.FullName())
	}
	resT := fn.Signature.Results()
	// evaluate in a scratch copy of the evaluation state: spec calls have no effects
	st := e.st.clone()
	savedOuter := e.c.outerGuard
	if e.st.guard != "" && e.st.guard != "true" {
		if savedOuter != "" && savedOuter != "true" {
			e.c.outerGuard = and(savedOuter, e.st.guard)
		} else {
			e.c.outerGuard = e.st.guard
		}
	}
	defer func() { e.c.outerGuard = savedOuter }()
	st.guard = "true"
	v := x.inlineCall(st, fn, nil, args, resT, true)
	return v
}

func (e *Env) globalVar(obj *types.Var) Val {
	c := e.c
	if sp := e.x.p.ssaProg.Package(obj.Pkg()); sp != nil {
		if g := sp.Var(obj.Name()); g != nil {
			if cv, ok := e.x.constGlobalVal(g); ok {
				return cv
			}
		}
	}
	name := "G_" + san(obj.Pkg().Name()+"."+obj.Name())
	c.regions[name] = c.sortOf(obj.Type())
	if v, ok := e.st.cells[name]; ok {
		return Val{T: obj.Type(), S: v.S}
	}
	return Val{T: obj.Type(), S: c.regionInit(name, e.st.gen)}
}

// selectPatterns chooses, for each bound variable, one array-read term
// "(select A idx)" of the body whose index mentions that variable (and whose
// array does not mention any bound variable) as E-matching trigger.
func selectPatterns(body string, bvs []string) string {
	var terms []string
	collectSelects(body, &terms)
	mentions := func(t, v string) bool {
		for i := 0; i+len(v) <= len(t); i++ {
			if t[i:i+len(v)] == v {
				end := i + len(v)
				if (i == 0 || t[i-1] == ' ' || t[i-1] == '(') && (end == len(t) || t[end] == ' ' || t[end] == ')') {
					return true
				}
			}
		}
		return false
	}
	var chosen []string
	covered := map[string]bool{}
	var apps []string
	collectApps(body, "(rec_", &apps)
	for _, v := range bvs {
		if covered[v] {
			continue
		}
		found := ""
		// applications of named specification functions make the cleanest triggers
		for pass := 0; pass < 2 && found == ""; pass++ {
			for _, t := range apps {
				if !mentions(t, v) || strings.Contains(t, "(ite ") || strings.Contains(t, "(* ") {
					continue
				}
				if pass == 0 {
					// prefer the variable as a direct argument
					direct := false
					for _, a := range splitSexp(t[1 : len(t)-1])[1:] {
						if a == v {
							direct = true
						}
					}
					if !direct {
						continue
					}
				}
				found = t
				break
			}
		}
		for _, t := range terms {
			if found != "" {
				break
			}
			parts := splitSexp(t[len("(select ") : len(t)-1])
			if len(parts) != 2 {
				continue
			}
			arrOK := true
			for _, w := range bvs {
				if mentions(parts[0], w) {
					arrOK = false
				}
			}
			if !arrOK || strings.Contains(parts[0], "(ite ") || !mentions(parts[1], v) || strings.Contains(parts[1], "(ite ") || strings.Contains(parts[1], "(mod ") || strings.Contains(parts[1], "(div ") || strings.Contains(parts[1], "(* ") {
				continue
			}
			found = t
			break
		}
		if found == "" {
			return ""
		}
		dup := false
		for _, c := range chosen {
			if c == found {
				dup = true
			}
		}
		if !dup {
			chosen = append(chosen, found)
		}
		for _, w := range bvs {
			if mentions(found, w) {
				covered[w] = true
			}
		}
	}
	return strings.Join(chosen, " ")
}

// collectApps collects the applications whose text starts with prefix.
func collectApps(t string, prefix string, out *[]string) {
	if !strings.HasPrefix(t, "(") {
		return
	}
	if strings.HasPrefix(t, prefix) {
		*out = append(*out, t)
	}
	for _, p := range splitSexp(t[1 : len(t)-1]) {
		collectApps(p, prefix, out)
	}
}

func collectSelects(t string, out *[]string) {
	if !strings.HasPrefix(t, "(") {
		return
	}
	if strings.HasPrefix(t, "(select ") {
		*out = append(*out, t)
	}
	// descend
	inner := t[1 : len(t)-1]
	for _, p := range splitSexp(inner) {
		if strings.HasPrefix(p, "(") {
			collectSelects(p, out)
		}
	}
}

// liveCall: is ex the call live(v), and if so, does the local variable v have
// a value on the current path?
func (e *Env) liveCall(ex ast.Expr) (live bool, isLive bool) {
	for {
		p, ok := ex.(*ast.ParenExpr)
		if !ok {
			break
		}
		ex = p.X
	}
	ce, ok := ex.(*ast.CallExpr)
	if !ok {
		return false, false
	}
	id, ok := ce.Fun.(*ast.Ident)
	if !ok || id.Name != "live" || len(ce.Args) != 1 {
		return false, false
	}
	v, ok := ce.Args[0].(*ast.Ident)
	if !ok {
		return false, true
	}
	if e.x == nil {
		return false, true
	}
	// any local of that name with a value in the current state
	for pos, a := range e.x.allocByPos {
		_ = pos
		if a.Comment == v.Name {
			if cv, ok := e.st.cells[e.x.cellKey(a)]; ok && (cv.S != "" || cv.Fn != nil) {
				return true, true
			}
		}
	}
	return false, true
}
