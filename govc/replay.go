package main

// Replay of solver counterexamples against the real code.
//
// For a failed obligation whose query is satisfiable, the entry state of the
// verified function is read out of the solver's model (interactive session,
// get-value), turned into a Go test that builds that state, calls the real
// function and checks the violated condition, and the test is run inside the
// real package with `go test -tags verif -overlay` (nothing is written under
// the repository).  Supported shapes: builtins of package postscript
// (func(*Interpreter) error) and functions whose parameters are scalars,
// strings or byte slices.

import (
	"bufio"
	"bytes"
	"context"
	"encoding/json"
	"fmt"
	"go/ast"
	"go/printer"
	"go/token"
	"go/types"
	"io"
	"os"
	"os/exec"
	"path/filepath"
	"strconv"
	"strings"
	"time"

	"golang.org/x/tools/go/ssa"
)

// ---------------------------------------------------------------------
// s-expressions

type sexp struct {
	atom string
	list []*sexp
}

func (s *sexp) String() string {
	if s == nil {
		return ""
	}
	if s.list == nil {
		return s.atom
	}
	var parts []string
	for _, e := range s.list {
		parts = append(parts, e.String())
	}
	return "(" + strings.Join(parts, " ") + ")"
}

func parseSexp(s string) (*sexp, string) {
	s = strings.TrimLeft(s, " \t\r\n")
	if s == "" {
		return nil, ""
	}
	if s[0] == '(' {
		s = s[1:]
		node := &sexp{list: []*sexp{}}
		for {
			s = strings.TrimLeft(s, " \t\r\n")
			if s == "" {
				return node, ""
			}
			if s[0] == ')' {
				return node, s[1:]
			}
			var e *sexp
			e, s = parseSexp(s)
			if e == nil {
				return node, s
			}
			node.list = append(node.list, e)
		}
	}
	if s[0] == '"' {
		j := strings.Index(s[1:], "\"")
		if j < 0 {
			return &sexp{atom: s}, ""
		}
		return &sexp{atom: s[:j+2]}, s[j+2:]
	}
	j := strings.IndexAny(s, " \t\r\n()")
	if j < 0 {
		return &sexp{atom: s}, ""
	}
	return &sexp{atom: s[:j]}, s[j:]
}

// ---------------------------------------------------------------------
// interactive solver session

type session struct {
	cmd *exec.Cmd
	in  io.WriteCloser
	out *bufio.Reader
}

// startSession looks for a (small) model: first of the full query restricted by
// the size hints, then of the relaxed query with and without the hints.  Extra
// restrictions are harmless: a candidate only counts when it replays.
func startSession(query string, backend string, hints []string, altQuery string) (*session, error) {
	withHints := func(q string) string {
		if len(hints) == 0 {
			return q
		}
		i := strings.LastIndex(q, "(check-sat)")
		if i < 0 {
			return q
		}
		var b strings.Builder
		b.WriteString(q[:i])
		for _, h := range hints {
			b.WriteString("(assert " + h + ")\n")
		}
		b.WriteString(q[i:])
		return b.String()
	}
	var lastErr error
	cands := []string{withHints(query), withHints(relaxedQuery(query)), relaxedQuery(query)}
	if altQuery != "" {
		cands = []string{withHints(query), withHints(altQuery), altQuery, withHints(relaxedQuery(query))}
	}
	for qi, q := range cands {
		if d := os.Getenv("GOVC_DUMP_CAND"); d != "" {
			os.WriteFile(filepath.Join(d, fmt.Sprintf("cand%d.smt2", qi)), []byte(q), 0o644)
		}
		s, err := startSession1(q, backend)
		if err == nil {
			return s, nil
		}
		lastErr = err
		backend = "z3-new"
	}
	return nil, lastErr
}

func startSession1(query string, backend string) (*session, error) {
	args := []string{"-in", "-T:12"}
	if strings.Contains(backend, "seed=7") {
		args = append(args, "smt.random_seed=7")
	}
	if strings.Contains(backend, "seed=1234") {
		args = append(args, "smt.random_seed=1234")
	}
	if strings.Contains(backend, "seed=42") {
		args = append(args, "smt.random_seed=42", "smt.auto_config=false")
	}
	bin := "z3-new"
	if strings.HasPrefix(backend, "z3-4.8.12") {
		bin = "z3"
		if strings.Contains(backend, "seed=5") {
			args = append(args, "smt.random_seed=5")
		}
	}
	ctx, cancel := context.WithTimeout(context.Background(), 60*time.Second)
	_ = cancel
	cmd := exec.CommandContext(ctx, bin, args...)
	in, err := cmd.StdinPipe()
	if err != nil {
		return nil, err
	}
	outp, err := cmd.StdoutPipe()
	if err != nil {
		return nil, err
	}
	cmd.Stderr = nil
	if err := cmd.Start(); err != nil {
		return nil, err
	}
	s := &session{cmd: cmd, in: in, out: bufio.NewReaderSize(outp, 1<<20)}
	io.WriteString(in, "(set-option :produce-models true)\n")
	io.WriteString(in, query)
	ans, err := s.readAnswer()
	if err != nil {
		s.close()
		return nil, err
	}
	if strings.TrimSpace(ans) != "sat" {
		s.close()
		return nil, fmt.Errorf("solver session answered %q", strings.TrimSpace(ans))
	}
	return s, nil
}

func (s *session) close() {
	s.in.Close()
	s.cmd.Process.Kill()
	s.cmd.Wait()
}

// readAnswer reads one atom line or one balanced s-expression.
func (s *session) readAnswer() (string, error) {
	var b strings.Builder
	depth := 0
	started := false
	for {
		line, err := s.out.ReadString('\n')
		if strings.HasPrefix(line, "WARNING") {
			continue
		}
		b.WriteString(line)
		for _, ch := range line {
			if ch == '(' {
				depth++
				started = true
			} else if ch == ')' {
				depth--
			}
		}
		if strings.TrimSpace(line) != "" && (!started || depth <= 0) {
			return b.String(), nil
		}
		if err != nil {
			return b.String(), err
		}
	}
}

// value asks for the model value of one term.
func (s *session) value(term string) (*sexp, error) {
	io.WriteString(s.in, "(get-value ("+term+"))\n")
	ans, err := s.readAnswer()
	if err != nil && ans == "" {
		return nil, err
	}
	e, _ := parseSexp(ans)
	if e == nil || len(e.list) != 1 || len(e.list[0].list) != 2 {
		return nil, fmt.Errorf("unexpected get-value answer: %s", truncate(ans, 200))
	}
	return e.list[0].list[1], nil
}

func sexpInt(e *sexp) (int64, bool) {
	if e == nil {
		return 0, false
	}
	if e.list == nil {
		v, err := strconv.ParseInt(e.atom, 10, 64)
		if err != nil {
			// 9223372036854775808 does not fit: treat as failure
			return 0, false
		}
		return v, true
	}
	if len(e.list) == 2 && e.list[0].atom == "-" {
		if e.list[1].list == nil {
			if e.list[1].atom == "9223372036854775808" {
				return -9223372036854775808, true
			}
		}
		v, ok := sexpInt(e.list[1])
		return -v, ok
	}
	return 0, false
}

// sexpRealGo renders a model real as a Go float64 expression.
func sexpRealGo(e *sexp) (string, bool) {
	if e == nil {
		return "", false
	}
	if e.list == nil {
		if _, err := strconv.ParseFloat(e.atom, 64); err == nil {
			return "float64(" + e.atom + ")", true
		}
		return "", false
	}
	if len(e.list) == 2 && e.list[0].atom == "-" {
		v, ok := sexpRealGo(e.list[1])
		return "-(" + v + ")", ok
	}
	if len(e.list) == 3 && e.list[0].atom == "/" {
		a, ok1 := sexpRealGo(e.list[1])
		b, ok2 := sexpRealGo(e.list[2])
		return "(" + a + ")/(" + b + ")", ok1 && ok2
	}
	return "", false
}

// ---------------------------------------------------------------------
// reading Go values out of the model

type modelReader struct {
	s     *session
	c     *Ctx
	depth int
	notes []string
	fail  string
}

func (m *modelReader) str(term string) (string, bool) {
	ln, err := m.s.value(sx("gstr_len", term))
	if err != nil {
		return "", false
	}
	n, ok := sexpInt(ln)
	if !ok || n < 0 || n > 64 {
		return "", false
	}
	var bs []byte
	for i := int64(0); i < n; i++ {
		v, err := m.s.value(sx("gstr_at", term, fmt.Sprint(i)))
		if err != nil {
			return "", false
		}
		b, ok := sexpInt(v)
		if !ok {
			return "", false
		}
		bs = append(bs, byte(b))
	}
	return string(bs), true
}

func (m *modelReader) sliceParts(term string) (ref, off, ln int64, ok bool) {
	v, err := m.s.value(term)
	if err != nil || v == nil || len(v.list) != 5 || v.list[0].atom != "mk-slice" {
		return 0, 0, 0, false
	}
	ref, ok1 := sexpInt(v.list[1])
	off, ok2 := sexpInt(v.list[2])
	ln, ok3 := sexpInt(v.list[3])
	return ref, off, ln, ok1 && ok2 && ok3
}

// objectGo renders the Object denoted by an Iface term as Go source.
func (m *modelReader) objectGo(term string, heapGen string) (string, bool) {
	v, err := m.s.value(term)
	if err != nil || v == nil {
		return "", false
	}
	if v.list == nil {
		switch v.atom {
		case "I_nil":
			return "nil", true
		}
		return "", false
	}
	ctor := v.list[0].atom
	switch ctor {
	case "I_postscript_Integer":
		n, ok := sexpInt(v.list[1])
		if !ok {
			return "", false
		}
		if n == -9223372036854775808 {
			return "Integer(math.MinInt64)", true
		}
		return fmt.Sprintf("Integer(%d)", n), true
	case "I_postscript_Real":
		r, ok := sexpRealGo(v.list[1])
		return "Real(" + r + ")", ok
	case "I_postscript_Boolean":
		return "Boolean(" + v.list[1].atom + ")", true
	case "I_postscript_Name", "I_postscript_Operator":
		s, ok := m.str(sx("pv_"+ctor[2:], term))
		if !ok {
			return "", false
		}
		if ctor == "I_postscript_Operator" && (s == "{" || s == "}") {
			return "", false // never stored in memory (value invariant)
		}
		return fmt.Sprintf("%s(%q)", ctor[len("I_postscript_"):], s), true
	case "I_postscript_mark":
		return "theMark", true
	case "I_postscript_Dict":
		return "Dict{}", true
	case "I_postscript_builtin":
		return "builtin(bPop)", true
	case "I_postscript_String":
		ref, off, ln, ok := m.sliceParts(sx("pv_postscript_String", term))
		if !ok || ln > 32 {
			return "", false
		}
		var bs []string
		for i := int64(0); i < ln; i++ {
			bv, err := m.s.value(fmt.Sprintf("(select (select H_uint8%s %d) %d)", heapGen, ref, off+i))
			if err != nil {
				return "", false
			}
			b, ok := sexpInt(bv)
			if !ok {
				return "", false
			}
			bs = append(bs, fmt.Sprint(b))
		}
		return "String{" + strings.Join(bs, ", ") + "}", true
	case "I_postscript_Array", "I_postscript_Procedure":
		if m.depth >= 2 {
			return ctor[len("I_postscript_"):] + "{}", true
		}
		ref, off, ln, ok := m.sliceParts(sx("pv_"+ctor[2:], term))
		if !ok || ln > 8 {
			return "", false
		}
		m.depth++
		defer func() { m.depth-- }()
		var es []string
		for i := int64(0); i < ln; i++ {
			e, ok := m.objectGo(fmt.Sprintf("(select (select H_postscript_Object%s %d) %d)", heapGen, ref, off+i), heapGen)
			if !ok {
				return "", false
			}
			es = append(es, e)
		}
		return ctor[len("I_postscript_"):] + "{" + strings.Join(es, ", ") + "}", true
	}
	return "", false
}

// ---------------------------------------------------------------------
// replay driver

func findDecl(c *Ctx, prefix string) string {
	for _, d := range c.decls {
		if strings.HasPrefix(d, "(declare-const "+prefix) {
			f := strings.Fields(d)
			return f[1]
		}
	}
	return ""
}

// relaxedQuery drops the quantified assumptions of a query.  A model of the
// relaxed query is only a candidate counterexample: it counts when (and only
// when) it replays on the real code.
func relaxedQuery(q string) string {
	var b strings.Builder
	lines := strings.Split(q, "\n")
	for i, l := range lines {
		last := i >= len(lines)-3
		if strings.HasPrefix(l, "(assert ") && (strings.Contains(l, "(forall ((q_") || strings.Contains(l, "(exists ((q_")) && !last {
			continue
		}
		b.WriteString(l)
		b.WriteString("\n")
	}
	return b.String()
}

// qfGoal weakens an obligation "(=> A (and c1 ... cn))" to its quantifier-free
// conjuncts (used only to search candidate counterexamples).
func qfGoal(goal string) string {
	e, _ := parseSexp(goal)
	if e == nil {
		return goal
	}
	var ante []string
	cur := e
	for cur.list != nil && len(cur.list) == 3 && cur.list[0].atom == "=>" {
		ante = append(ante, cur.list[1].String())
		cur = cur.list[2]
	}
	var conj []string
	var flat func(n *sexp)
	flat = func(n *sexp) {
		if n.list != nil && len(n.list) > 0 && n.list[0].atom == "and" {
			for _, c := range n.list[1:] {
				flat(c)
			}
			return
		}
		if t := n.String(); !strings.Contains(t, "(forall (") && !strings.Contains(t, "(exists (") {
			conj = append(conj, t)
		}
	}
	flat(cur)
	if len(conj) == 0 {
		return goal
	}
	return implies(and(ante...), and(conj...))
}

func tryReplay(o *Options, p *Program, ob *Obligation) *ReplayResult {
	if ob.ctx == nil || ob.Result.Status == "unsat" || ob.Result.Status == "error" || ob.Result.Status == "not-attempted" {
		return nil
	}
	if ob.Kind == "translate" || ob.Kind == "requires-sat" {
		return nil
	}
	fn := p.byName[ob.Func]
	if fn == nil || fn.Pkg == nil || fn.Parent() != nil {
		return nil
	}
	defer func() { recover() }()
	sig := fn.Signature
	isBuiltinShape := fn.Pkg.Pkg.Name() == "postscript" && sig.Params().Len() == 1 && sig.Results().Len() == 1 &&
		typeStr(sig.Params().At(0).Type()) == "*postscript.Interpreter" && sig.Recv() == nil
	var res *ReplayResult
	if isBuiltinShape {
		res = replayBuiltin(o, p, ob, fn)
	} else if pureShape(fn) {
		res = replayPure(o, p, ob, fn)
	}
	return res
}

func pureShape(fn *ssa.Function) bool {
	if fn.Signature.Recv() != nil {
		return false
	}
	for i := 0; i < fn.Signature.Params().Len(); i++ {
		t := fn.Signature.Params().At(i).Type()
		_, _, isI := intInfo(t)
		if !(isI || isBool(t) || isString(t) || isByteSlice(t) || isFloat(t)) {
			return false
		}
	}
	return fn.Signature.Params().Len() > 0
}

var safetyKinds = map[string]bool{"index": true, "slice": true, "nil": true, "assert": true, "div": true, "shift": true,
	"make": true, "nilmap": true, "panic": true, "ifacecmp": true}

// goTestRun runs a generated test inside the real package through an overlay.
func goTestRun(o *Options, pkgDir string, testSrc string, name string) (string, bool) {
	dir := filepath.Join(o.out, "work", "replay")
	os.MkdirAll(dir, 0o755)
	tf := filepath.Join(dir, name+"_test.go")
	os.WriteFile(tf, []byte(testSrc), 0o644)
	ov := map[string]map[string]string{"Replace": {filepath.Join(pkgDir, "zz_govc_replay_test.go"): tf}}
	data, _ := json.Marshal(ov)
	of := filepath.Join(dir, name+"_overlay.json")
	os.WriteFile(of, data, 0o644)
	ctx, cancel := context.WithTimeout(context.Background(), 120*time.Second)
	defer cancel()
	cmd := exec.CommandContext(ctx, "go", "test", "-tags", "verif", "-overlay", of, "-vet=off", "-count=1", "-timeout", "60s", "-run", "^TestGovcReplay$", ".")
	cmd.Dir = pkgDir
	cmd.Env = append(os.Environ(), "GOFLAGS=-mod=mod", "GOPROXY=off", "GOSUMDB=off", "GOTOOLCHAIN=local")
	var out bytes.Buffer
	cmd.Stdout = &out
	cmd.Stderr = &out
	cmd.Run()
	s := out.String()
	return s, strings.Contains(s, "REPLAY-CONFIRMED")
}

func replayBuiltin(o *Options, p *Program, ob *Obligation, fn *ssa.Function) *ReplayResult {
	c := ob.ctx
	intp := findDecl(c, "p_intp!")
	if intp == "" {
		return nil
	}
	fld := func(name string) string { return sx("select", "F_postscript_Interpreter_"+name+"@0", intp) }
	var hints []string
	if _, ok := c.regions["F_postscript_Interpreter_Stack"]; ok {
		hints = append(hints, sx("<=", sLen(fld("Stack")), "6"))
	}
	if _, ok := c.regions["F_postscript_Interpreter_DictStack"]; ok {
		hints = append(hints, sx("<=", sLen(fld("DictStack")), "20"))
	}
	s, err := startSession(ob.query(), ob.Result.Backend, hints, ob.candidateQuery())
	if err != nil {
		return &ReplayResult{Verdict: "no model session: " + err.Error()}
	}
	defer s.close()
	m := &modelReader{s: s, c: c}
	var setup []string
	// operand stack
	if _, ok := c.regions["F_postscript_Interpreter_Stack"]; ok {
		ref, off, ln, ok := m.sliceParts(fld("Stack"))
		if !ok || ln > 12 {
			return &ReplayResult{Verdict: "model not replayable (operand stack too large or unreadable)"}
		}
		var es []string
		for i := int64(0); i < ln; i++ {
			e, ok := m.objectGo(fmt.Sprintf("(select (select H_postscript_Object@0 %d) %d)", ref, off+i), "@0")
			if !ok {
				e = "Integer(0) /* model value not representable */"
			}
			es = append(es, e)
		}
		setup = append(setup, "intp.Stack = []Object{"+strings.Join(es, ", ")+"}")
	}
	if _, ok := c.regions["F_postscript_Interpreter_DictStack"]; ok {
		_, _, ln, ok := m.sliceParts(fld("DictStack"))
		if ok && ln >= 2 && ln <= 64 {
			setup = append(setup, fmt.Sprintf("for len(intp.DictStack) < %d { intp.DictStack = append(intp.DictStack, Dict{}) }", ln))
		}
	}
	for _, f := range []string{"MaxOps", "NumOps", "execStackDepth"} {
		if _, ok := c.regions["F_postscript_Interpreter_"+f]; ok {
			if v, err := s.value(fld(f)); err == nil {
				if n, ok := sexpInt(v); ok {
					setup = append(setup, fmt.Sprintf("intp.%s = %d", f, n))
				}
			}
		}
	}
	if _, ok := c.regions["F_postscript_Interpreter_errors"]; ok {
		if _, _, ln, ok := m.sliceParts(fld("errors")); ok && ln >= 0 && ln <= 5 {
			setup = append(setup, fmt.Sprintf("for len(intp.errors) < %d { intp.errors = append(intp.errors, &postScriptError{eTypecheck, \"replay\"}) }", ln))
		}
	}
	check, note := replayCheck(p, ob, fn)
	var b strings.Builder
	b.WriteString("package postscript\n\nimport (\n\t\"math\"\n\t\"strings\"\n\t\"testing\"\n)\n\nvar _ = math.MinInt64\n\n")
	b.WriteString("// Replay of obligation " + ob.Name + "\n")
	b.WriteString("func TestGovcReplay(t *testing.T) {\n\tintp := NewInterpreter()\n\tintp.scanners = append(intp.scanners, newScanner(strings.NewReader(\"\")))\n")
	for _, l := range setup {
		b.WriteString("\t" + l + "\n")
	}
	b.WriteString("\tt.Logf(\"entry stack: %v\", intp.Stack)\n")
	b.WriteString(check.pre)
	b.WriteString("\tvar result error\n\tpanicked := func() (p interface{}) {\n\t\tdefer func() { p = recover() }()\n\t\tresult = " + fn.Name() + "(intp)\n\t\treturn nil\n\t}()\n")
	b.WriteString("\tif panicked != nil {\n\t\tt.Fatalf(\"REPLAY-CONFIRMED: panic: %v\", panicked)\n\t}\n")
	b.WriteString("\tt.Logf(\"result: %v, exit stack: %v\", result, intp.Stack)\n")
	b.WriteString(check.post)
	b.WriteString("}\n")
	out, confirmed := goTestRun(o, filepath.Join(p.repo), b.String(), shortName(ob.Name))
	rr := &ReplayResult{Confirmed: confirmed, Detail: "setup:\n  " + strings.Join(setup, "\n  ") + "\n" + note + "\n--- go test output ---\n" + truncate(out, 4000)}
	if confirmed {
		rr.Verdict = "CONFIRMED on the real code"
	} else {
		rr.Verdict = "not reproduced on the real code with this model (the obligation failed nevertheless)"
	}
	return rr
}

type replayCode struct{ pre, post string }

// replayCheck turns the violated clause into Go code (only for ensures
// obligations whose clause is executable; safety obligations need none).
func replayCheck(p *Program, ob *Obligation, fn *ssa.Function) (replayCode, string) {
	if safetyKinds[ob.Kind] {
		return replayCode{}, "expectation: the call must not panic"
	}
	if ob.Kind != "ensures" {
		return replayCode{}, "no executable check for obligation kind " + ob.Kind
	}
	fc := p.contracts[ob.Func]
	if fc == nil {
		return replayCode{}, ""
	}
	// find the clause by its position in the tag ("...:ensuresK")
	idx := -1
	if i := strings.LastIndex(ob.Tag, "ensures"); i >= 0 {
		rest := ob.Tag[i+len("ensures"):]
		if j := strings.IndexAny(rest, ".#"); j >= 0 {
			rest = rest[:j]
		}
		if n, err := strconv.Atoi(rest); err == nil {
			idx = n - 1
		}
	}
	if idx < 0 || idx >= len(fc.Ensures) {
		return replayCode{}, ""
	}
	cl := fc.Ensures[idx]
	e, err := cl.parse()
	if err != nil {
		return replayCode{}, ""
	}
	g := &goGen{p: p, pkg: fn.Pkg.Pkg}
	body := g.expr(e)
	if g.bad != "" {
		return replayCode{}, "clause not executable in the replay (" + g.bad + ")"
	}
	var pre strings.Builder
	pre.WriteString("\tpre := func() *Interpreter { c := *intp; c.Stack = append([]Object(nil), intp.Stack...); c.DictStack = append([]Dict(nil), intp.DictStack...); c.errors = append([]*postScriptError(nil), intp.errors...); c.procStart = append([]int(nil), intp.procStart...); c.scanners = append([]*scanner(nil), intp.scanners...); return &c }()\n\t_ = pre\n")
	post := "\tif !(" + body + ") {\n\t\tt.Fatalf(\"REPLAY-CONFIRMED: postcondition violated: %s\", " + strconv.Quote(cl.Text) + ")\n\t}\n"
	return replayCode{pre: pre.String(), post: post}, "expectation: " + cl.Text
}

// goGen renders a contract expression as executable Go (old(e) is computed
// before the call; quantifiers over int ranges become bounded loops).
type goGen struct {
	p    *Program
	pkg  *types.Package
	olds []string
	bad  string
	inOld bool
	oldNames map[string]string // pure-function replay: parameter -> snapshot variable
}

func (g *goGen) expr(e ast.Expr) string {
	switch e := e.(type) {
	case *ast.CallExpr:
		if id, ok := e.Fun.(*ast.Ident); ok {
			switch id.Name {
			case "__implies":
				return "(!(" + g.expr(e.Args[0]) + ") || (" + g.expr(e.Args[1]) + "))"
			case "old":
				// old(e): e evaluated on the snapshot taken before the call
				if g.inOld {
					return g.expr(e.Args[0])
				}
				g.inOld = true
				src := g.expr(e.Args[0])
				g.inOld = false
				return "(" + src + ")"
			case "__forall", "__exists":
				fl := e.Args[0].(*ast.FuncLit)
				var names []string
				for _, f := range fl.Type.Params.List {
					for _, n := range f.Names {
						names = append(names, n.Name)
					}
				}
				body := g.expr(fl.Body.List[0].(*ast.ReturnStmt).Results[0])
				all := id.Name == "__forall"
				code := "func() bool { "
				for _, n := range names {
					code += fmt.Sprintf("for %s := -2; %s < 2000; %s++ { ", n, n, n)
				}
				if all {
					code += "if !(func() (ok bool) { defer func() { if recover() != nil { ok = true } }(); return " + body + " }()) { return false } "
				} else {
					code += "if func() (ok bool) { defer func() { if recover() != nil { ok = false } }(); return " + body + " }() { return true } "
				}
				for range names {
					code += "}; "
				}
				if all {
					code += "return true }()"
				} else {
					code += "return false }()"
				}
				return code
			case "isType":
				return "func() bool { _, ok := (" + g.expr(e.Args[0]) + ").(" + exprString(e.Args[1]) + "); return ok }()"
			case "has":
				return "func() bool { _, ok := (" + g.expr(e.Args[0]) + ")[" + g.expr(e.Args[1]) + "]; return ok }()"
			case "ref", "off", "fresh":
				g.bad = id.Name + "() is not executable"
				return "true"
			}
			if d := g.p.defines[g.pkg.Name()+"."+id.Name]; d != nil {
				body, err := d.Body.parse()
				if err != nil {
					g.bad = "define does not parse"
					return "true"
				}
				// substitute parameters textually through a closure
				var params, args []string
				for i, pn := range d.Params {
					params = append(params, pn)
					args = append(args, g.expr(e.Args[i]))
				}
				_ = params
				sub := &goGen{p: g.p, pkg: g.pkg, olds: g.olds, inOld: g.inOld, oldNames: g.oldNames}
				src := sub.expr(substIdents(body, d.Params, e.Args))
				g.olds = sub.olds
				if sub.bad != "" {
					g.bad = sub.bad
				}
				return "(" + src + ")"
			}
		}
		var args []string
		for _, a := range e.Args {
			args = append(args, g.expr(a))
		}
		return g.expr(e.Fun) + "(" + strings.Join(args, ", ") + ")"
	case *ast.BinaryExpr:
		return "(" + g.expr(e.X) + " " + e.Op.String() + " " + g.expr(e.Y) + ")"
	case *ast.UnaryExpr:
		return "(" + e.Op.String() + g.expr(e.X) + ")"
	case *ast.ParenExpr:
		return "(" + g.expr(e.X) + ")"
	case *ast.IndexExpr:
		return g.expr(e.X) + "[" + g.expr(e.Index) + "]"
	case *ast.SelectorExpr:
		return g.expr(e.X) + "." + e.Sel.Name
	case *ast.TypeAssertExpr:
		return g.expr(e.X) + ".(" + exprString(e.Type) + ")"
	case *ast.Ident:
		if g.inOld && e.Name == "intp" {
			return "pre"
		}
		if g.inOld {
			if r, ok := g.oldNames[e.Name]; ok {
				return r
			}
		}
		return e.Name
	case *ast.BasicLit:
		return exprString(e)
	case *ast.StarExpr:
		return "*" + g.expr(e.X)
	}
	var buf bytes.Buffer
	printer.Fprint(&buf, token.NewFileSet(), e)
	return buf.String()
}

// substIdents replaces parameter identifiers of a define by argument expressions.
func substIdents(e ast.Expr, params []string, args []ast.Expr) ast.Expr {
	m := map[string]ast.Expr{}
	for i, p := range params {
		m[p] = args[i]
	}
	var rec func(e ast.Expr) ast.Expr
	rec = func(e ast.Expr) ast.Expr {
		switch e := e.(type) {
		case *ast.Ident:
			if a, ok := m[e.Name]; ok {
				return &ast.ParenExpr{X: a}
			}
			return e
		case *ast.BinaryExpr:
			return &ast.BinaryExpr{X: rec(e.X), Op: e.Op, Y: rec(e.Y)}
		case *ast.UnaryExpr:
			return &ast.UnaryExpr{Op: e.Op, X: rec(e.X)}
		case *ast.ParenExpr:
			return &ast.ParenExpr{X: rec(e.X)}
		case *ast.CallExpr:
			n := &ast.CallExpr{Fun: e.Fun}
			if _, isLit := e.Fun.(*ast.FuncLit); isLit {
				n.Fun = rec(e.Fun)
			}
			for _, a := range e.Args {
				n.Args = append(n.Args, rec(a))
			}
			return n
		case *ast.FuncLit:
			nb := &ast.BlockStmt{}
			for _, st := range e.Body.List {
				if r, ok := st.(*ast.ReturnStmt); ok {
					nr := &ast.ReturnStmt{}
					for _, x := range r.Results {
						nr.Results = append(nr.Results, rec(x))
					}
					nb.List = append(nb.List, nr)
				} else {
					nb.List = append(nb.List, st)
				}
			}
			return &ast.FuncLit{Type: e.Type, Body: nb}
		case *ast.IndexExpr:
			return &ast.IndexExpr{X: rec(e.X), Index: rec(e.Index)}
		case *ast.SelectorExpr:
			return &ast.SelectorExpr{X: rec(e.X), Sel: e.Sel}
		case *ast.TypeAssertExpr:
			return &ast.TypeAssertExpr{X: rec(e.X), Type: e.Type}
		}
		return e
	}
	return rec(e)
}

// replayPure: functions of scalars / strings / byte slices.  A model that does
// not reproduce on the real code (models of the quantifier-free relaxation
// can be spurious) is excluded and the next one is tried, a few times.
func replayPure(o *Options, p *Program, ob *Obligation, fn *ssa.Function) *ReplayResult {
	var hints []string
	var last *ReplayResult
	for iter := 0; iter < 3; iter++ {
		res, block := replayPureOnce(o, p, ob, fn, hints)
		if res == nil {
			return last
		}
		last = res
		if res.Confirmed || block == "" {
			return res
		}
		hints = append(hints, block)
	}
	return last
}

func replayPureOnce(o *Options, p *Program, ob *Obligation, fn *ssa.Function, hints []string) (*ReplayResult, string) {
	r, block := replayPureOnce1(o, p, ob, fn, hints)
	return r, block
}

func replayPureOnce1(o *Options, p *Program, ob *Obligation, fn *ssa.Function, hints []string) (res0 *ReplayResult, blockClause string) {
	c := ob.ctx
	var blocks []string
	defer func() {
		if len(blocks) > 0 {
			blockClause = not(and(blocks...))
		}
	}()
	ret := func(r *ReplayResult) (*ReplayResult, string) { return r, "" }
	_ = ret
	s, err := startSession(ob.query(), ob.Result.Backend, hints, ob.candidateQuery())
	if err != nil {
		res0 = &ReplayResult{Verdict: "no model session: " + err.Error()}
		return
	}
	defer s.close()
	m := &modelReader{s: s, c: c}
	var args []string
	var desc []string
	for _, pr := range fn.Params {
		name := findDecl(c, "p_"+pr.Name()+"!")
		if name == "" {
			res0 = nil
			return
		}
		t := pr.Type()
		var src string
		switch {
		case isBool(t):
			v, err := s.value(name)
			if err != nil {
				res0 = nil
				return
			}
			src = v.atom
			blocks = append(blocks, eq(name, v.atom))
		case isFloat(t):
			v, err := s.value(name)
			if err != nil {
				res0 = nil
				return
			}
			r, ok := sexpRealGo(v)
			if !ok {
				res0 = &ReplayResult{Verdict: "model not replayable (float value)"}
				return
			}
			src = r
		case isString(t):
			str, ok := m.str(name)
			if !ok {
				res0 = &ReplayResult{Verdict: "model not replayable (string too long)"}
				return
			}
			src = strconv.Quote(str)
		case isByteSlice(t):
			ref, off, ln, ok := m.sliceParts(name)
			if !ok || ln > 4096 {
				res0 = &ReplayResult{Verdict: "model not replayable (slice too long)"}
				return
			}
			var bs []string
			for i := int64(0); i < ln; i++ {
				bv, err := s.value(fmt.Sprintf("(select (select H_uint8@0 %d) %d)", ref, off+i))
				if err != nil {
					res0 = nil
					return
				}
				b, _ := sexpInt(bv)
				bs = append(bs, fmt.Sprint(b))
			}
			src = "[]byte{" + strings.Join(bs, ", ") + "}"
			if ref == 0 {
				src = "[]byte(nil)"
			}
		default:
			v, err := s.value(c.toIdx(t, name))
			if err != nil {
				res0 = nil
				return
			}
			n, ok := sexpInt(v)
			if !ok {
				res0 = &ReplayResult{Verdict: "model not replayable (integer value)"}
				return
			}
			src = fmt.Sprintf("%d", n)
			blocks = append(blocks, eq(c.toIdx(t, name), smtInt64(n)))
			if n == -9223372036854775808 {
				src = "math.MinInt64"
			}
		}
		tn := types.TypeString(t, func(pk *types.Package) string {
			if pk == fn.Pkg.Pkg {
				return ""
			}
			return pk.Name()
		})
		args = append(args, tn+"("+src+")")
		desc = append(desc, pr.Name()+" = "+src)
	}
	if ob.Kind == "ensures" {
		res0 = replayPureEnsures(o, p, ob, fn, args, desc)
		return
	}
	if !safetyKinds[ob.Kind] {
		res0 = &ReplayResult{Verdict: "counterexample: " + strings.Join(desc, ", ") + " (no executable check for this obligation kind)"}
		return
	}
	var b strings.Builder
	b.WriteString("package " + fn.Pkg.Pkg.Name() + "\n\nimport (\n\t\"math\"\n\t\"testing\"\n)\n\nvar _ = math.MinInt64\n\n")
	b.WriteString("// Replay of obligation " + ob.Name + "\n")
	b.WriteString("func TestGovcReplay(t *testing.T) {\n\tpanicked := func() (p interface{}) {\n\t\tdefer func() { p = recover() }()\n\t\t" + fn.Name() + "(" + strings.Join(args, ", ") + ")\n\t\treturn nil\n\t}()\n")
	b.WriteString("\tif panicked != nil {\n\t\tt.Fatalf(\"REPLAY-CONFIRMED: panic: %v\", panicked)\n\t}\n}\n")
	rel := strings.TrimPrefix(fn.Pkg.Pkg.Path(), p.modPath)
	out, confirmed := goTestRun(o, filepath.Join(p.repo, rel), b.String(), shortName(ob.Name))
	rr := &ReplayResult{Confirmed: confirmed, Detail: "arguments: " + strings.Join(desc, ", ") + "\n--- go test output ---\n" + truncate(out, 4000)}
	if confirmed {
		rr.Verdict = "CONFIRMED on the real code"
	} else {
		rr.Verdict = "not reproduced on the real code with this model (the obligation failed nevertheless)"
	}
	res0 = rr
	return
}

// replayPureEnsures: run the real function on the model's arguments and
// evaluate the violated postcondition, compiled to Go, on the outcome.
func replayPureEnsures(o *Options, p *Program, ob *Obligation, fn *ssa.Function, args, desc []string) *ReplayResult {
	fc := p.contracts[ob.Func]
	if fc == nil {
		return nil
	}
	idx := -1
	if i := strings.LastIndex(ob.Tag, "ensures"); i >= 0 {
		rest := ob.Tag[i+len("ensures"):]
		if j := strings.IndexAny(rest, ".#"); j >= 0 {
			rest = rest[:j]
		}
		if n, err := strconv.Atoi(rest); err == nil {
			idx = n - 1
		}
	}
	if idx < 0 || idx >= len(fc.Ensures) {
		return &ReplayResult{Verdict: "counterexample: " + strings.Join(desc, ", ") + " (clause not found)"}
	}
	cl := fc.Ensures[idx]
	e, err := cl.parse()
	if err != nil {
		return nil
	}
	g := &goGen{p: p, pkg: fn.Pkg.Pkg, oldNames: map[string]string{}}
	var b strings.Builder
	b.WriteString("package " + fn.Pkg.Pkg.Name() + "\n\nimport (\n\t\"math\"\n\t\"testing\"\n)\n\nvar _ = math.MinInt64\n\n")
	b.WriteString("// Replay of obligation " + ob.Name + "\n")
	b.WriteString("func TestGovcReplay(t *testing.T) {\n")
	var names []string
	for i, pr := range fn.Params {
		b.WriteString(fmt.Sprintf("\t%s := %s\n\t_ = %s\n", pr.Name(), args[i], pr.Name()))
		on := "old_" + pr.Name()
		if isByteSlice(pr.Type()) {
			b.WriteString(fmt.Sprintf("\t%s := append([]byte(nil), %s...)\n\t_ = %s\n", on, pr.Name(), on))
		} else {
			b.WriteString(fmt.Sprintf("\t%s := %s\n\t_ = %s\n", on, pr.Name(), on))
		}
		g.oldNames[pr.Name()] = on
		names = append(names, pr.Name())
	}
	body := g.expr(e)
	if g.bad != "" {
		return &ReplayResult{Verdict: "counterexample: " + strings.Join(desc, ", ") + " (clause not executable in the replay: " + g.bad + ")"}
	}
	nres := fn.Signature.Results().Len()
	var rn []string
	switch nres {
	case 0:
	case 1:
		rn = []string{"result"}
	default:
		for i := 0; i < nres; i++ {
			rn = append(rn, fmt.Sprintf("result%d", i))
		}
	}
	for i, r := range rn {
		b.WriteString(fmt.Sprintf("\tvar %s %s\n\t_ = %s\n", r, types.TypeString(fn.Signature.Results().At(i).Type(), func(pk *types.Package) string {
			if pk == fn.Pkg.Pkg {
				return ""
			}
			return pk.Name()
		}), r))
	}
	call := fn.Name() + "(" + strings.Join(names, ", ") + ")"
	if len(rn) > 0 {
		call = strings.Join(rn, ", ") + " = " + call
	}
	b.WriteString("\tpanicked := func() (p interface{}) {\n\t\tdefer func() { p = recover() }()\n\t\t" + call + "\n\t\treturn nil\n\t}()\n")
	b.WriteString("\tif panicked != nil {\n\t\tt.Fatalf(\"REPLAY-CONFIRMED: panic: %v\", panicked)\n\t}\n")
	b.WriteString("\tif !(" + body + ") {\n\t\tt.Fatalf(\"REPLAY-CONFIRMED: postcondition violated: %s\", " + strconv.Quote(cl.Text) + ")\n\t}\n}\n")
	rel := strings.TrimPrefix(fn.Pkg.Pkg.Path(), p.modPath)
	out, confirmed := goTestRun(o, filepath.Join(p.repo, rel), b.String(), shortName(ob.Name))
	rr := &ReplayResult{Confirmed: confirmed, Detail: "arguments: " + strings.Join(desc, ", ") + "\nexpectation: " + cl.Text + "\n--- go test output ---\n" + truncate(out, 4000)}
	if confirmed {
		rr.Verdict = "CONFIRMED on the real code"
	} else {
		rr.Verdict = "not reproduced on the real code with this model (the obligation failed nevertheless)"
	}
	return rr
}

// candidateQuery: the obligation with every quantified assumption dropped and
// the goal weakened to its quantifier-free conjuncts.
func (o *Obligation) candidateQuery() string {
	c := o.ctx
	var b strings.Builder
	b.WriteString(c.preamble())
	for _, a := range c.assert[:o.nAssert] {
		if strings.Contains(a, "(forall (") || strings.Contains(a, "(exists (") {
			continue
		}
		b.WriteString("(assert " + a + ")\n")
	}
	b.WriteString("(assert " + and(o.guard, not(qfGoal(o.goal))) + ")\n(check-sat)\n")
	// the preamble itself contains one quantified axiom about empty strings; keep it
	return b.String()
}

func smtInt64(n int64) string {
	if n < 0 {
		return "(- " + strings.TrimPrefix(fmt.Sprint(n), "-") + ")"
	}
	return fmt.Sprint(n)
}
