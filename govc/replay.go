package main

// Replay of solver counterexamples against the real code (go test -overlay).

func tryReplay(o *Options, p *Program, ob *Obligation) *ReplayResult {
	return nil
}
