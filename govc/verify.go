package main

// Verifying one function against its contract; discharging obligations.

import (
	"fmt"
	"go/token"
	"go/types"
	"os"
	"path/filepath"
	"runtime/debug"
	"sort"
	"strings"
	"sync"

	"golang.org/x/tools/go/ssa"
)

func newVerifier(p *Program) *Verifier {
	return &Verifier{p: p, counts: map[string]int{}, funcs: map[string]*FuncReport{}, srcCache: map[string][]string{}}
}

// verifyFunc generates all obligations of one function under contract.
func (v *Verifier) verifyFunc(key string) {
	p := v.p
	fc := p.contracts[key]
	fn := p.byName[key]
	rep := &FuncReport{Key: key}
	v.funcs[key] = rep
	if fn == nil {
		rep.Error = "contract block names a function that does not exist: " + key
		v.problems = append(v.problems, rep.Error)
		return
	}
	if fc.Trusted {
		rep.Trusted = true
		rep.Notes = append(rep.Notes, "contract assumed, body not verified: "+strings.Join(fc.Notes, "; "))
		return
	}
	rep.Mode = fc.Arith.String()
	nBefore := len(v.obls)
	func() {
		defer func() {
			if r := recover(); r != nil {
				switch e := r.(type) {
				case unsupported:
					rep.Error = "engine: " + string(e)
				case contractError:
					rep.Error = "contract: " + e.msg
					v.problems = append(v.problems, key+": "+e.msg)
				default:
					rep.Error = fmt.Sprintf("engine panic: %v\n%s", r, debug.Stack())
				}
				// obligations generated before the failure stay; add a failing marker
				c := newCtx(p, fc.Arith)
				o := &Obligation{Name: key + "#translate", Kind: "translate", Func: key, Props: propsOf(fc), guard: "true", goal: "false", ctx: c,
					Text: rep.Error}
				o.Result = SolverResult{Status: "error", Raw: rep.Error}
				v.obls = append(v.obls, o)
			}
		}()
		c := newCtx(p, fc.Arith)
		x := &Exec{v: v, c: c, p: p, fn: fn, key: key, fc: fc, vals: map[ssa.Value]Val{}, prefix: "f", params: map[string]Val{},
			freeVals: map[string]Val{}, props: fc.Safety}
		st := &State{guard: "true", cells: map[string]Val{}}
		a0 := c.alloc(st)
		c.assume(sx("<=", "0", a0))
		for _, pr := range fn.Params {
			n := c.freshConst("p_"+pr.Name(), pr.Type())
			c.assume(c.wfAt(pr.Type(), n, a0))
			x.vals[pr] = Val{T: pr.Type(), S: n}
			x.params[pr.Name()] = x.vals[pr]
		}
		for _, fv := range fn.FreeVars {
			n := c.freshConst("fv_"+fv.Name(), fv.Type())
			c.assume(and(sx("<", "0", n), sx("<=", n, a0)))
			x.freeVals[fv.Name()] = Val{T: fv.Type(), S: n}
		}
		// distinct free variables of the same type are distinct cells
		for i, a := range fn.FreeVars {
			for _, b := range fn.FreeVars[i+1:] {
				if types.Identical(a.Type(), b.Type()) {
					c.assume(not(eq(x.freeVals[a.Name()].S, x.freeVals[b.Name()].S)))
				}
			}
		}
		x.entry = st.clone()
		env := &Env{x: x, c: c, st: st, old: st, vars: x.params, oldVars: x.params, free: x.freeVals, fn: fn, pos: fn.Pos()}
		var reqs []string
		for _, rq := range fc.Requires {
			f := x.evalClause(env, rq)
			reqs = append(reqs, f)
			c.assume(f)
		}
		// vacuity guard: the precondition must be satisfiable
		if len(reqs) > 0 {
			o := &Obligation{Name: key + "#requires-sat", Kind: "requires-sat", Func: key, Props: propsOf(fc), guard: "true", goal: "false",
				nAssert: len(c.assert), nDecl: len(c.decls), ctx: c, Text: "precondition must be satisfiable (expected: sat)"}
			v.obls = append(v.obls, o)
		}
		x.entry = st.clone()
		x.run(st)
		for n := range c.notes {
			rep.Notes = append(rep.Notes, n)
		}
		sort.Strings(rep.Notes)
	}()
	rep.Obligations = len(v.obls) - nBefore
}

func propsOf(fc *FuncContract) []string {
	var out []string
	for p := range fc.Props {
		out = append(out, p)
	}
	sort.Strings(out)
	return out
}

func (x *Exec) checkEnsures(st *State, res []Val, pos token.Pos) {
	if x.fc == nil {
		return
	}
	vars := map[string]Val{}
	for k, v := range x.params {
		vars[k] = v
	}
	bindResults(vars, x.fn.Signature, pack(x.fn.Signature.Results(), res))
	env := &Env{x: x, c: x.c, st: st, old: x.entry, vars: vars, oldVars: x.params, free: x.freeVals, fn: x.fn, pos: x.fn.Pos()}
	for i, en := range x.fc.Ensures {
		goal := x.evalClause(env, en)
		x.oblige(st, "ensures", pos, goal, x.clauseTag(en, fmt.Sprintf("ensures%d", i+1)), x.clauseProps(en))
	}
}

// ---------------------------------------------------------------------
// discharging

func (o *Obligation) query() string {
	c := o.ctx
	var b strings.Builder
	b.WriteString("; obligation " + o.Name + "\n")
	b.WriteString(c.preamble())
	for _, a := range c.assert[:o.nAssert] {
		b.WriteString("(assert " + a + ")\n")
	}
	for _, a := range o.extra {
		b.WriteString("(assert " + a + ")\n")
	}
	b.WriteString("(assert " + and(o.guard, not(o.goal)) + ")\n")
	b.WriteString("(check-sat)\n")
	return b.String()
}

func (v *Verifier) discharge(obls []*Obligation, dir string, timeoutS int, thorough bool, jobs int) {
	os.MkdirAll(dir, 0o755)
	var wg sync.WaitGroup
	sem := make(chan struct{}, jobs)
	for i, o := range obls {
		if o.Result.Status != "" {
			continue
		}
		if o.goal == "true" || o.guard == "false" {
			o.Result = SolverResult{Status: "unsat", Backend: "syntactic"}
			continue
		}
		wg.Add(1)
		sem <- struct{}{}
		go func(i int, o *Obligation) {
			defer wg.Done()
			defer func() { <-sem }()
			q := o.query()
			name := fmt.Sprintf("q%04d_%s", i, san(o.Name))
			if len(name) > 120 {
				name = name[:120]
			}
			res := solve(q, dir, name, timeoutS, thorough)
			if o.Kind == "requires-sat" {
				// expected sat: the precondition is not contradictory
				switch res.Status {
				case "sat":
					res.Status = "unsat"
					res.Model = ""
				case "unsat":
					res.Status = "sat"
					res.Raw = "precondition is unsatisfiable (vacuous contract)"
				default:
					// unknown satisfiability of the precondition: accept quantified preconditions as non-vacuous only if proven; report unknown
				}
			}
			o.Result = res
			if res.Status == "unsat" {
				os.Remove(filepath.Join(dir, name+".smt2"))
			}
		}(i, o)
	}
	wg.Wait()
}
