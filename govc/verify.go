package main

// Verifying one function against its contract; discharging obligations.

import (
	"context"
	"fmt"
	"go/token"
	"go/types"
	"os"
	"path/filepath"
	"os/exec"
	"runtime/debug"
	"time"
	"sort"
	"strings"
	"sync"

	"golang.org/x/tools/go/ssa"
)

func newVerifier(p *Program) *Verifier {
	return &Verifier{p: p, counts: map[string]int{}, funcs: map[string]*FuncReport{}, srcCache: map[string][]string{}}
}

// verifyFunc generates all obligations of one function under contract.
func (v *Verifier) verifyFunc(key string) {
	p := v.p
	fc := p.contracts[key]
	fn := p.byName[key]
	rep := &FuncReport{Key: key}
	v.funcs[key] = rep
	if fn == nil {
		rep.Error = "contract block names a function that does not exist: " + key
		v.problems = append(v.problems, rep.Error)
		return
	}
	if fc.Trusted {
		rep.Trusted = true
		rep.Notes = append(rep.Notes, "contract assumed, body not verified: "+strings.Join(fc.Notes, "; "))
		return
	}
	rep.Mode = fc.Arith.String()
	nBefore := len(v.obls)
	func() {
		defer func() {
			if r := recover(); r != nil {
				switch e := r.(type) {
				case unsupported:
					rep.Error = "engine: " + string(e)
				case contractError:
					rep.Error = "contract: " + e.msg
					v.problems = append(v.problems, key+": "+e.msg)
				default:
					rep.Error = fmt.Sprintf("engine panic: %v\n%s", r, debug.Stack())
				}
				// obligations generated before the failure stay; add a failing marker
				c := newCtx(p, fc.Arith)
				o := &Obligation{Name: key + "#translate", Kind: "translate", Func: key, Props: propsOf(fc), guard: "true", goal: "false", ctx: c,
					Text: rep.Error}
				o.Result = SolverResult{Status: "error", Raw: rep.Error}
				v.obls = append(v.obls, o)
			}
		}()
		c := newCtx(p, fc.Arith)
		x := &Exec{v: v, c: c, p: p, fn: fn, key: key, fc: fc, vals: map[ssa.Value]Val{}, prefix: "f", params: map[string]Val{},
			freeVals: map[string]Val{}, props: fc.Safety}
		st := &State{guard: "true", cells: map[string]Val{}}
		a0 := c.alloc(st)
		c.assume(sx("<=", "0", a0))
		for _, pr := range fn.Params {
			n := c.freshConst("p_"+pr.Name(), pr.Type())
			c.assume(c.wfAt(pr.Type(), n, a0))
			if it, ok := pr.Type().Underlying().(*types.Interface); ok && it.NumMethods() > 0 {
				c.assume(c.wfIfaceRefs(n, a0))
			}
			x.vals[pr] = Val{T: pr.Type(), S: n}
			x.params[pr.Name()] = x.vals[pr]
		}
		for _, fv := range fn.FreeVars {
			n := c.freshConst("fv_"+fv.Name(), fv.Type())
			c.assume(and(sx("<", "0", n), sx("<=", n, a0)))
			x.freeVals[fv.Name()] = Val{T: fv.Type(), S: n}
		}
		// distinct free variables of the same type are distinct cells
		for i, a := range fn.FreeVars {
			for _, b := range fn.FreeVars[i+1:] {
				if types.Identical(a.Type(), b.Type()) {
					c.assume(not(eq(x.freeVals[a.Name()].S, x.freeVals[b.Name()].S)))
				}
			}
		}
		x.entry = st.clone()
		x.stableObligations(st)
		env := &Env{x: x, c: c, st: st, old: st, vars: x.params, oldVars: x.params, free: x.freeVals, fn: fn, pos: fn.Pos()}
		var reqs []string
		for _, rq := range fc.Requires {
			f := x.evalClause(env, rq)
			reqs = append(reqs, f)
			c.assume(f)
		}
		// vacuity guard: the precondition must be satisfiable
		if len(reqs) > 0 {
			o := &Obligation{Name: key + "#requires-sat", Kind: "requires-sat", Func: key, Props: propsOf(fc), guard: "true", goal: "false",
				nAssert: len(c.assert), nDecl: len(c.decls), ctx: c, Text: "precondition must be satisfiable (expected: sat)"}
			v.obls = append(v.obls, o)
		}
		x.entry = st.clone()
		c.nEntry = len(c.assert)
		c.reach = blockReach(fn)
		x.run(st)
		c.curBlock = -1
		for n := range c.notes {
			rep.Notes = append(rep.Notes, n)
		}
		sort.Strings(rep.Notes)
	}()
	rep.Obligations = len(v.obls) - nBefore
}

func propsOf(fc *FuncContract) []string {
	var out []string
	for p := range fc.Props {
		out = append(out, p)
	}
	sort.Strings(out)
	return out
}

func (x *Exec) checkEnsures(st *State, res []Val, pos token.Pos) {
	if x.fc == nil {
		return
	}
	vars := map[string]Val{}
	for k, v := range x.params {
		vars[k] = v
	}
	bindResults(vars, x.fn.Signature, pack(x.fn.Signature.Results(), res))
	env := &Env{x: x, c: x.c, st: st, old: x.entry, vars: vars, oldVars: x.params, free: x.freeVals, fn: x.fn, pos: x.fn.Pos()}
	for i, en := range x.fc.Ensures {
		goal := x.evalClause(env, en)
		x.oblige(st, "ensures", pos, goal, x.clauseTag(en, fmt.Sprintf("ensures%d", i+1)), x.clauseProps(en))
	}
}

// ---------------------------------------------------------------------
// discharging

// scopeBase: block tags at or below this value mark assumptions that are in
// scope for a single obligation only (see maporder.go).
const scopeBase = -1000

func (o *Obligation) query() string { return o.queryWith(false) }

func (o *Obligation) queryWith(slice bool) string {
	c := o.ctx
	var b strings.Builder
	b.WriteString("; obligation " + o.Name + "\n")
	b.WriteString(c.preamble())
	final := and(o.guard, not(o.goal))
	if o.coverOnly {
		final = o.guard // reachability of the obligation point under all assumptions
	}
	var keep []bool
	if slice {
		keep = c.relevant(o.nAssert, append([]string{final}, o.extra...))
	}
	// path slicing: facts recorded while executing a block that cannot reach the
	// obligation's block describe other paths only
	if o.block >= 0 && c.reach != nil && os.Getenv("GOVC_NO_PATHSLICE") == "" {
		if keep == nil {
			keep = make([]bool, o.nAssert)
			for i := range keep {
				keep[i] = true
			}
		}
		for i := 0; i < o.nAssert && i < len(c.assertBlk); i++ {
			if blk := c.assertBlk[i]; blk >= 0 && blk < len(c.reach) && !c.reach[blk][o.block] {
				keep[i] = false
			}
		}
	}
	// uses(...): keep only the named callee postconditions (and everything untagged)
	if o.uses != nil {
		for i := 0; i < o.nAssert && i < len(c.assertTag); i++ {
			tg := c.assertTag[i]
			if tg == "" {
				continue
			}
			hit := false
			for _, t := range strings.Split(tg, ",") {
				if o.uses[t] {
					hit = true
				}
			}
			if !hit {
				if keep == nil {
					keep = make([]bool, o.nAssert)
					for j := range keep {
						keep[j] = true
					}
				}
				keep[i] = false
			}
		}
	}
	// scoped assumptions (blk <= scopeBase) belong to exactly one obligation
	for i := 0; i < o.nAssert && i < len(c.assertBlk); i++ {
		if blk := c.assertBlk[i]; blk <= scopeBase && blk != o.scope {
			if keep == nil {
				keep = make([]bool, o.nAssert)
				for j := range keep {
					keep[j] = true
				}
			}
			keep[i] = false
		}
	}
	for i, a := range c.assert[:o.nAssert] {
		if keep == nil || keep[i] {
			b.WriteString("(assert " + a + ")\n")
		}
	}
	for _, a := range o.extra {
		b.WriteString("(assert " + a + ")\n")
	}
	b.WriteString("(assert " + final + ")\n")
	b.WriteString("(check-sat)\n")
	return b.String()
}

// freshSyms lists the generated symbols (those containing '!') of a term.
func freshSyms(t string) []string {
	var out []string
	start := -1
	bang := false
	for i := 0; i <= len(t); i++ {
		var ch byte = ' '
		if i < len(t) {
			ch = t[i]
		}
		if ch == ' ' || ch == '(' || ch == ')' {
			if start >= 0 && bang && !strings.HasPrefix(t[start:i], "alloc") && !strings.HasPrefix(t[start:i], "q_") {
				out = append(out, t[start:i])
			}
			start, bang = -1, false
			continue
		}
		if start < 0 {
			start = i
		}
		if ch == '!' {
			bang = true
		}
	}
	return out
}

// relevant computes a directed cone of influence of the goal among the
// first n assertions.  Generated symbols become relevant through the goal and
// through the definitions "(= sym term)" of relevant symbols.  A definition
// is kept iff it defines a relevant symbol; a guarded fact "(=> G fact)" is
// kept iff every generated symbol of G is relevant (facts of sibling branches
// are dropped); any other fact is kept iff it mentions no generated symbol or
// shares one with the relevant set.  Dropping assumptions is always sound.
func (c *Ctx) relevant(n int, seeds []string) []bool {
	if os.Getenv("GOVC_NO_SLICE") != "" {
		return nil
	}
	c.symMu.Lock()
	if c.symCache == nil || len(c.symCache) < len(c.assert) {
		c.symCache = make([]assertInfo, len(c.assert))
		for i, a := range c.assert {
			c.symCache[i] = analyseAssert(a)
		}
	}
	infos := c.symCache
	c.symMu.Unlock()
	rel := map[string]bool{}
	for _, s := range seeds {
		for _, y := range freshSyms(s) {
			rel[y] = true
		}
	}
	keep := make([]bool, n)
	// the function's entry assumptions (parameter well-formedness, preconditions) always count
	for i := 0; i < n && i < c.nEntry; i++ {
		keep[i] = true
		for _, y := range infos[i].syms {
			rel[y] = true
		}
		if infos[i].def != "" {
			rel[infos[i].def] = true
		}
	}
	// pass 1 (backwards): definitions of relevant symbols; guarded facts whose guard is
	// relevant make their own symbols relevant too (they constrain values used on the path)
	for round := 0; round < 6; round++ {
		changed := false
		for i := n - 1; i >= 0; i-- {
			if keep[i] {
				continue
			}
			in := infos[i]
			switch {
			case in.def != "":
				if rel[in.def] || strings.HasPrefix(in.def, "alloc") {
					keep[i] = true
					changed = true
					for _, y := range in.syms {
						rel[y] = true
					}
				}
			case len(in.guard) > 0:
				ok := true
				for _, g := range in.guard {
					if !rel[g] {
						ok = false
					}
				}
				hit := false
				for _, y := range in.body {
					if rel[y] {
						hit = true
					}
				}
				if ok && (hit || len(in.body) == 0) {
					keep[i] = true
					changed = true
					for _, y := range in.body {
						rel[y] = true
					}
				}
			}
		}
		if !changed {
			break
		}
	}
	for i := 0; i < n; i++ {
		in := infos[i]
		if keep[i] || in.def != "" || len(in.guard) > 0 {
			continue
		}
		if len(in.syms) == 0 {
			keep[i] = true
			continue
		}
		for _, y := range in.syms {
			if rel[y] {
				keep[i] = true
				break
			}
		}
	}
	return keep
}

type assertInfo struct {
	syms  []string // all generated symbols
	def   string   // "(= sym term)": the defined symbol
	guard []string // "(=> G fact)": generated symbols of G
	body  []string // ... and of fact
}

func analyseAssert(a string) assertInfo {
	in := assertInfo{syms: freshSyms(a)}
	if strings.HasPrefix(a, "(= ") {
		rest := a[3:]
		if j := strings.IndexByte(rest, ' '); j > 0 && !strings.HasPrefix(rest, "(") && strings.Contains(rest[:j], "!") {
			in.def = rest[:j]
			in.syms = freshSyms(rest[j:])
			return in
		}
	}
	if strings.HasPrefix(a, "(=> ") {
		parts := splitSexp(a[4 : len(a)-1])
		if len(parts) == 2 {
			in.guard = freshSyms(parts[0])
			in.body = freshSyms(parts[1])
			if len(in.guard) == 0 {
				in.guard = nil
			}
		}
	}
	return in
}

// coverCheck: for obligations at the end of a path, is the path reachable under
// all recorded assumptions?  An unreachable end of path makes its obligations
// hold vacuously; they are listed in the evidence (a return that really is
// unreachable is legitimate, a reachable one reported here is an engine or
// contract bug).
func (v *Verifier) coverCheck(obls []*Obligation, dir string, jobs int) []string {
	var mu sync.Mutex
	var out []string
	var wg sync.WaitGroup
	sem := make(chan struct{}, jobs)
	seen := map[string]bool{}
	for i, o := range obls {
		switch o.Kind {
		case "ensures", "back-when", "exit-when":
		default:
			continue
		}
		if o.ctx == nil || o.guard == "true" {
			continue
		}
		key := o.Func + "|" + o.guard
		if seen[key] {
			continue
		}
		seen[key] = true
		wg.Add(1)
		sem <- struct{}{}
		go func(i int, o *Obligation) {
			defer wg.Done()
			defer func() { <-sem }()
			c2 := *o
			c2.coverOnly = true
			name := fmt.Sprintf("cover%04d", i)
			file := filepath.Join(dir, name+".smt2")
			os.WriteFile(file, []byte(c2.query()), 0o644)
			ctx, cancel := context.WithCancel(context.Background())
			defer cancel()
			res := runOne(ctx, solvers[0], file, 5)
			os.Remove(file)
			if res.Status == "unsat" {
				mu.Lock()
				out = append(out, o.Name+" at "+o.Pos)
				mu.Unlock()
			}
		}(i, o)
	}
	wg.Wait()
	sort.Strings(out)
	return out
}

func (v *Verifier) discharge(obls []*Obligation, dir string, timeoutS int, thorough bool, jobs int) {
	os.MkdirAll(dir, 0o755)
	names := make([]string, len(obls))
	for i, o := range obls {
		n := fmt.Sprintf("q%04d_%s", i, san(o.Name))
		if len(n) > 120 {
			n = n[:120]
		}
		names[i] = n
	}
	runPhase := func(phase int, todo []int, par int) []int {
		var wg sync.WaitGroup
		sem := make(chan struct{}, par)
		var mu sync.Mutex
		var left []int
		for _, i := range todo {
			o := obls[i]
			wg.Add(1)
			sem <- struct{}{}
			go func(i int, o *Obligation) {
				defer wg.Done()
				defer func() { <-sem }()
				q := ""
				if phase == 1 {
					q = o.query()
				} else {
					// an extra, sliced variant of the query (cone of influence of the goal): a proof
					// from fewer assumptions is a proof; any other answer of the sliced query is ignored
					os.WriteFile(filepath.Join(dir, names[i]+".sl.smt2"), []byte(o.queryWith(true)), 0o644)
				}
				res := solve(q, dir, names[i], timeoutS, thorough, phase)
				if o.Kind == "requires-sat" {
					// expected sat: the precondition is not contradictory
					switch res.Status {
					case "sat":
						res.Status = "unsat"
						res.Model = ""
					case "unsat":
						res.Status = "sat"
						res.Raw = "precondition is unsatisfiable (vacuous contract)"
					}
				}
				definite := res.Status == "unsat" || res.Status == "sat"
				if phase == 1 && (!definite || thorough) {
					mu.Lock()
					left = append(left, i)
					mu.Unlock()
					if !thorough {
						o.Result = res
					}
					return
				}
				o.Result = res
				if res.Status == "unsat" && os.Getenv("GOVC_KEEP_PROVED") == "" {
					os.Remove(filepath.Join(dir, names[i]+".smt2"))
				}
				os.Remove(filepath.Join(dir, names[i]+".sl.smt2"))
			}(i, o)
		}
		wg.Wait()
		sort.Ints(left)
		return left
	}
	var todo []int
	for i, o := range obls {
		if o.Result.Status != "" {
			continue
		}
		if o.goal == "true" || o.guard == "false" {
			o.Result = SolverResult{Status: "unsat", Backend: "syntactic"}
			continue
		}
		todo = append(todo, i)
	}
	// phase 0: one incremental z3 process per function (push/pop per obligation)
	if os.Getenv("GOVC_NO_INCREMENTAL") == "" {
		todo = v.incremental(obls, todo, jobs, names, dir)
	}
	left := runPhase(1, todo, jobs)
	if len(left) > 0 {
		runPhase(2, left, max(1, jobs/4))
	}
}

// incremental discharges the obligations of each function in one solver
// process: assertions are fed in order, each obligation is checked between
// push and pop.  Anything not answered "unsat"/"sat" is left to the
// stand-alone phases.
func (v *Verifier) incremental(obls []*Obligation, todo []int, jobs int, names []string, dir string) []int {
	groups := map[*Ctx][]int{}
	var order []*Ctx
	var standalone []int
	for _, i := range todo {
		if obls[i].uses != nil {
			standalone = append(standalone, i) // needs its own, filtered query
			continue
		}
		c := obls[i].ctx
		if _, ok := groups[c]; !ok {
			order = append(order, c)
		}
		groups[c] = append(groups[c], i)
	}
	var wg sync.WaitGroup
	sem := make(chan struct{}, jobs)
	var mu sync.Mutex
	var left []int
	left = append(left, standalone...)
	// split large groups into chunks so that one big function does not serialise the run
	type chunk struct {
		c   *Ctx
		idx []int
	}
	var chunks []chunk
	for _, c := range order {
		idx := groups[c]
		sort.SliceStable(idx, func(a, b int) bool { return obls[idx[a]].nAssert < obls[idx[b]].nAssert })
		for len(idx) > 40 {
			chunks = append(chunks, chunk{c, idx[:40]})
			idx = idx[40:]
		}
		chunks = append(chunks, chunk{c, idx})
	}
	for gi, ch := range chunks {
		c, idx := ch.c, ch.idx
		wg.Add(1)
		sem <- struct{}{}
		go func(gi int, c *Ctx, idx []int) {
			defer wg.Done()
			defer func() { <-sem }()
			sort.SliceStable(idx, func(a, b int) bool { return obls[idx[a]].nAssert < obls[idx[b]].nAssert })
			var b strings.Builder
			b.WriteString(c.preamble())
			b.WriteString("(set-option :timeout 1000)\n")
			done := 0
			for _, i := range idx {
				o := obls[i]
				for ; done < o.nAssert; done++ {
					if done < len(c.assertBlk) && c.assertBlk[done] <= scopeBase {
						continue // scoped: only inside the push of its own obligation
					}
					b.WriteString("(assert " + c.assert[done] + ")\n")
				}
				b.WriteString("(push 1)\n")
				if o.scope != 0 {
					for k := 0; k < o.nAssert && k < len(c.assertBlk); k++ {
						if c.assertBlk[k] == o.scope {
							b.WriteString("(assert " + c.assert[k] + ")\n")
						}
					}
				}
				for _, a := range o.extra {
					b.WriteString("(assert " + a + ")\n")
				}
				b.WriteString("(assert " + and(o.guard, not(o.goal)) + ")\n(check-sat)\n(pop 1)\n")
			}
			file := filepath.Join(dir, fmt.Sprintf("inc%04d.smt2", gi))
			os.WriteFile(file, []byte(b.String()), 0o644)
			start := time.Now()
			cmd := exec.Command("z3-new", fmt.Sprintf("-T:%d", 20+5*len(idx)), file)
			out, _ := cmd.Output()
			ms := time.Since(start).Milliseconds()
			var answers []string
			bad := false
			for _, ln := range strings.Split(string(out), "\n") {
				ln = strings.TrimSpace(ln)
				if strings.HasPrefix(ln, "WARNING") {
					continue
				}
				switch ln {
				case "sat", "unsat", "unknown", "timeout":
					answers = append(answers, ln)
				case "":
				default:
					if strings.HasPrefix(ln, "(error") {
						bad = true
					}
				}
			}
			mu.Lock()
			defer mu.Unlock()
			for k, i := range idx {
				o := obls[i]
				if bad || k >= len(answers) {
					left = append(left, i)
					continue
				}
				a := answers[k]
				if o.Kind == "requires-sat" {
					if a == "sat" {
						o.Result = SolverResult{Status: "unsat", Backend: "z3-new-5.1.0(incremental)", Ms: ms / int64(len(idx))}
						continue
					}
					left = append(left, i)
					continue
				}
				if a == "unsat" {
					o.Result = SolverResult{Status: "unsat", Backend: "z3-new-5.1.0(incremental)", Ms: ms / int64(len(idx))}
				} else {
					left = append(left, i)
				}
			}
			if !bad {
				os.Remove(file)
			}
		}(gi, c, idx)
	}
	wg.Wait()
	sort.Ints(left)
	return left
}


// blockReach[a][b]: block b is reachable from block a (reflexive) without
// taking a back edge.
func blockReach(fn *ssa.Function) [][]bool {
	n := len(fn.Blocks)
	r := make([][]bool, n)
	for i := range r {
		r[i] = make([]bool, n)
		var stack []*ssa.BasicBlock
		stack = append(stack, fn.Blocks[i])
		r[i][i] = true
		for len(stack) > 0 {
			b := stack[len(stack)-1]
			stack = stack[:len(stack)-1]
			for _, s := range b.Succs {
				if s.Dominates(b) {
					continue // back edge: an earlier block of the next iteration starts from the havocked loop head
				}
				if !r[i][s.Index] {
					r[i][s.Index] = true
					stack = append(stack, s)
				}
			}
		}
	}
	return r
}
