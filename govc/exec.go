package main

// Symbolic execution of one go/ssa function (naive form): forward, with
// ite-merging at join points, loops cut at their invariants, callees
// replaced by their contracts.

import (
	"fmt"
	"go/ast"
	"go/constant"
	"go/token"
	"go/types"
	"os"
	"sort"
	"strings"

	"golang.org/x/tools/go/ssa"
)

type Obligation struct {
	Name   string
	Kind   string
	Func   string
	Props  []string
	Tag    string
	Pos    string
	Text   string
	guard  string
	goal   string
	nAssert int
	nDecl  int
	scope  int // block tag of assumptions that belong to this obligation only
	coverOnly bool
	uses   map[string]bool // callee postcondition tags this obligation's query keeps (nil: all)
	ctx    *Ctx
	Result SolverResult
	block  int      // block of the verified function the obligation arises in
	extra  []string // extra assertions local to this obligation
	vals   map[string]string // terms to evaluate in a model (for replay)
}

type Verifier struct {
	unreachable []string // end-of-path obligations whose path is unreachable under the assumptions
	p        *Program
	obls     []*Obligation
	counts   map[string]int
	problems []string
	funcs    map[string]*FuncReport
	srcCache map[string][]string
	trace    bool
}

type FuncReport struct {
	Key         string
	Mode        string
	Obligations int
	Error       string
	Notes       []string
	Trusted     bool
}

type retRec struct {
	st      *State
	results []Val
}

type deferRec struct {
	key  string // activation flag cell
	call *ssa.Defer
}

type Exec struct {
	v      *Verifier
	c      *Ctx
	p      *Program
	fn     *ssa.Function
	key    string
	fc     *FuncContract
	vals   map[ssa.Value]Val
	prefix string
	ghost  bool
	entry  *State
	params map[string]Val // entry values of parameters / free variables by name
	depth  int
	loops  map[*ssa.BasicBlock]*loopInfo
	loopList []*loopInfo
	defers []deferRec
	rets   []retRec
	inline bool
	allocByPos map[token.Pos]*ssa.Alloc
	lemmaAt    map[ssa.Instruction][]*PointLemma // program-point lemmas by the instruction they are checked in front of
	loopSnap map[*ssa.BasicBlock]*State
	loopVar  map[*ssa.BasicBlock]string
	props  []string
	parent *Exec
	freeVals map[string]Val // closure free variable name -> pointer value
	curCall  *ssa.CallCommon
	tailPaths int
	recName  string
	recRegs  []string
	curScope  int
	lastUses  []string // uses(...) list of the clause evaluated last
	muted     bool   // commutation runs: obligations are not recorded
	mutedExit string // guard of a return reached during a muted run
}

func (x *Exec) cellKey(a *ssa.Alloc) string {
	return "L:" + x.prefix + ":" + a.Name()
}

// ---------------------------------------------------------------------
// obligations

func (v *Verifier) srcLine(p *Program, pos token.Pos) (string, string) {
	if !pos.IsValid() {
		return "?", "?"
	}
	pp := p.fset.Position(pos)
	lines, ok := v.srcCache[pp.Filename]
	if !ok {
		data, err := os.ReadFile(pp.Filename)
		if err == nil {
			lines = strings.Split(string(data), "\n")
		}
		v.srcCache[pp.Filename] = lines
	}
	txt := "?"
	if pp.Line-1 < len(lines) && pp.Line >= 1 {
		txt = strings.TrimSpace(lines[pp.Line-1])
	}
	rel := strings.TrimPrefix(pp.Filename, p.repo+"/")
	return fmt.Sprintf("%s:%d", rel, pp.Line), txt
}

func (x *Exec) oblige(st *State, kind string, pos token.Pos, goal string, tag string, props []string) {
	if x.ghost {
		return
	}
	if x.root().muted {
		// second execution of code whose obligations are generated elsewhere
		switch kind {
		case "ensures", "inv-pres", "inv-init", "decreases", "back-when", "exit-when":
		default:
			x.assumeG(st, goal)
		}
		return
	}
	if x.fc != nil && x.fc.Skip[kind] {
		return
	}
	if goal == "true" {
		// trivially true obligations are still counted (they are discharged syntactically)
	}
	if strings.HasPrefix(goal, "(and ") && strings.Contains(goal, "(forall ") && !strings.HasSuffix(tag, "~") {
		parts := splitSexp(goal[5 : len(goal)-1])
		if len(parts) > 1 {
			for i, pt := range parts {
				t := tag
				if t == "" {
					t = "conj"
				}
				x.oblige(st, kind, pos, pt, fmt.Sprintf("%s.c%d~", t, i+1), props)
			}
			return
		}
	}
	tag = strings.TrimSuffix(tag, "~")
	where, txt := x.v.srcLine(x.p, pos)
	base := fmt.Sprintf("%s#%s", x.key, kind)
	if tag != "" {
		base += "[" + tag + "]"
		if kind == "ensures" && pos.IsValid() {
			// one obligation per path: a path is identified by the return
			// statement it ends in (its text, and its rank among the
			// function's return statements with the same text), so that
			// reordering branches elsewhere does not renumber it
			base += "@" + txt + x.returnRank(pos, txt)
		}
	} else {
		base += ":" + txt
	}
	x.v.counts[base]++
	name := base
	if n := x.v.counts[base]; n > 1 {
		name = fmt.Sprintf("%s#%d", base, n)
	}
	if props == nil {
		props = x.props
		if r := x.root(); r.fc != nil && len(r.fc.LockProps) > 0 && (kind == "unlock" || kind == "call-requires") {
			props = append(append([]string{}, props...), r.fc.LockProps...)
		}
	}
	o := &Obligation{Name: name, Kind: kind, Func: x.key, Props: props, Tag: tag, Pos: where, Text: txt,
		guard: st.guard, goal: goal, nAssert: len(x.c.assert), nDecl: len(x.c.decls), ctx: x.c, block: x.c.curBlock}
	switch kind {
	case "ensures", "inv-pres", "inv-init", "back-when", "exit-when", "lemma":
		if r := x.root(); len(r.lastUses) > 0 {
			o.uses = map[string]bool{}
			for _, u := range r.lastUses {
				o.uses[u] = true
			}
		}
	}
	if x.inline {
		// obligations inside inlined bodies belong to the inlining function
		o.Func = x.root().key
	}
	x.v.obls = append(x.v.obls, o)
	// assume it afterwards (assert-then-assume); obligations at the end of a
	// path (postconditions, invariant preservation) need not be assumed
	switch kind {
	case "ensures", "inv-pres", "inv-init", "decreases", "back-when", "exit-when", "maporder", "keys-sorted":
	default:
		x.c.assume(implies(st.guard, goal))
	}
}

// returnRank: "" for the first return statement (in source order) of the
// function whose line reads txt, "~k" for the k-th.
func (x *Exec) returnRank(pos token.Pos, txt string) string {
	syn := x.root().fn.Syntax()
	if syn == nil {
		return ""
	}
	line := x.p.fset.Position(pos).Line
	seen := map[int]bool{}
	rank := 1
	ast.Inspect(syn, func(n ast.Node) bool {
		if r, ok := n.(*ast.ReturnStmt); ok {
			l := x.p.fset.Position(r.Pos()).Line
			if l < line && !seen[l] {
				seen[l] = true
				if _, t := x.v.srcLine(x.p, r.Pos()); t == txt {
					rank++
				}
			}
		}
		return true
	})
	if rank == 1 {
		return ""
	}
	return fmt.Sprintf("~%d", rank)
}

// placeLemmas finds, for every program-point lemma of the contract, the first
// instruction (block order, then instruction order) on the k-th source line of
// the function whose text matches.
func (x *Exec) placeLemmas() {
	x.lemmaAt = map[ssa.Instruction][]*PointLemma{}
	if x.fc == nil || len(x.fc.Lemmas) == 0 || x.inline {
		return
	}
	first := map[int]ssa.Instruction{} // source line -> first instruction on it
	var lines []int
	for _, b := range x.fn.Blocks {
		for _, in := range b.Instrs {
			if _, ok := in.(*ssa.DebugRef); ok {
				continue
			}
			if !in.Pos().IsValid() {
				continue
			}
			l := x.p.fset.Position(in.Pos()).Line
			if _, ok := first[l]; !ok {
				first[l] = in
				lines = append(lines, l)
			}
		}
	}
	sort.Ints(lines)
	// call instructions in source order, for anchors of the form
	// "call <name>": the k-th call of a function or method called <name>
	// (robust against renamed variables, unlike a source line)
	var calls []*ssa.Call
	for _, b := range x.fn.Blocks {
		for _, in := range b.Instrs {
			if c, ok := in.(*ssa.Call); ok && c.Pos().IsValid() {
				calls = append(calls, c)
			}
		}
	}
	sort.Slice(calls, func(i, j int) bool { return calls[i].Pos() < calls[j].Pos() })
	calleeName := func(c *ssa.Call) string {
		if c.Call.IsInvoke() {
			return c.Call.Method.Name()
		}
		if f := c.Call.StaticCallee(); f != nil {
			return f.Name()
		}
		return ""
	}
	for _, lm := range x.fc.Lemmas {
		n := 0
		placed := false
		if name, ok := strings.CutPrefix(lm.Text, "call "); ok {
			for _, c := range calls {
				if calleeName(c) == strings.TrimSpace(name) {
					n++
					if n == lm.K {
						x.lemmaAt[c] = append(x.lemmaAt[c], lm)
						placed = true
						break
					}
				}
			}
			if !placed {
				panic(contractError{fmt.Sprintf("%s: no call of %q (occurrence %d) in %s", lm.Cl.Line, name, lm.K, x.key)})
			}
			continue
		}
		for _, l := range lines {
			_, txt := x.v.srcLine(x.p, first[l].Pos())
			match := txt == lm.Text
			if pre, ok := strings.CutSuffix(lm.Text, "..."); ok {
				match = strings.HasPrefix(txt, pre) // "<prefix>...": any statement starting like this
			}
			if match {
				n++
				if n == lm.K {
					x.lemmaAt[first[l]] = append(x.lemmaAt[first[l]], lm)
					placed = true
					break
				}
			}
		}
		if !placed {
			panic(contractError{fmt.Sprintf("%s: no statement %q (occurrence %d) in %s", lm.Cl.Line, lm.Text, lm.K, x.key)})
		}
	}
}

// checkLemmas proves the lemmas placed in front of in (old = function entry)
// and assumes them from here on.
func (x *Exec) checkLemmas(st *State, in ssa.Instruction, ls []*PointLemma) {
	for _, lm := range ls {
		env := &Env{x: x, c: x.c, st: st, old: x.entry, vars: x.params, oldVars: x.params, free: x.freeVals, fn: x.fn, pos: in.Pos(), useCells: true}
		goal := x.evalClause(env, lm.Cl)
		x.root().lastUses = lm.Cl.Uses
		x.oblige(st, "lemma", in.Pos(), goal, strings.Join(lm.Cl.Tags, ",")+":"+fmt.Sprintf("before#%d", lm.K), x.clauseProps(lm.Cl))
		x.root().lastUses = nil
	}
}

func (x *Exec) root() *Exec {
	r := x
	for r.parent != nil {
		r = r.parent
	}
	return r
}

func (x *Exec) assumeG(st *State, fact string) {
	x.c.assume(implies(st.guard, fact))
}

// ---------------------------------------------------------------------
// values

func (x *Exec) val(st *State, v ssa.Value) Val {
	switch v := v.(type) {
	case *ssa.Const:
		return x.constant(v)
	case *ssa.Function:
		return Val{T: v.Type(), S: fmt.Sprint(x.p.fnID(v)), Fn: &FnRef{Name: x.p.anyKey(v), Fn: v}}
	case *ssa.Global:
		return x.globalPtr(v)
	case *ssa.Builtin:
		return Val{T: v.Type(), Fn: &FnRef{Name: "builtin:" + v.Name()}}
	case *ssa.FreeVar:
		if fv, ok := x.freeVals[v.Name()]; ok {
			return fv
		}
		panic(unsupported("free variable " + v.Name()))
	}
	if r, ok := x.vals[v]; ok {
		return r
	}
	panic(unsupported(fmt.Sprintf("use of undefined SSA value %s (%T) in %s", v.Name(), v, x.key)))
}

func (p *Program) fnID(f *ssa.Function) int {
	if id, ok := p.funcIDs[f]; ok {
		return id
	}
	id := len(p.funcIDs) + 1000
	p.funcIDs[f] = id
	return id
}

func (p *Program) anyKey(f *ssa.Function) string {
	if f.Pkg != nil && p.inModule(f.Pkg.Pkg.Path()) || f.Parent() != nil {
		return p.funcKey(f)
	}
	return extKey(f)
}

func (x *Exec) constant(k *ssa.Const) Val {
	t := k.Type()
	if k.Value == nil {
		if _, ok := t.Underlying().(*types.Basic); ok && t.Underlying().(*types.Basic).Kind() == types.UntypedNil {
			return Val{T: t, S: "0"}
		}
		return Val{T: t, S: x.c.zero(t)}
	}
	return x.c.constVal(t, k.Value)
}

// globals: each package-level variable is a heap cell with a fixed reference.
func (x *Exec) globalPtr(g *ssa.Global) Val {
	elem := g.Type().(*types.Pointer).Elem()
	name := "G_" + san(g.Pkg.Pkg.Name()+"."+g.Name())
	x.c.regions[name] = x.c.sortOf(elem)
	return Val{T: g.Type(), P: &Ptr{Kind: pCell, Cell: name, BaseT: elem, G: g}}
}

// ---------------------------------------------------------------------
// running a function body

type blockIn struct {
	edges []edgeState
}

func (x *Exec) run(st0 *State) {
	fn := x.fn
	if len(fn.Blocks) == 0 {
		panic(unsupported("function without body: " + x.key))
	}
	x.loopList = findLoops(fn)
	x.loops = map[*ssa.BasicBlock]*loopInfo{}
	for _, li := range x.loopList {
		x.loops[li.header] = li
	}
	x.loopSnap = map[*ssa.BasicBlock]*State{}
	x.loopVar = map[*ssa.BasicBlock]string{}
	x.allocByPos = map[token.Pos]*ssa.Alloc{}
	x.placeLemmas()
	for _, b := range fn.Blocks {
		for _, in := range b.Instrs {
			if a, ok := in.(*ssa.Alloc); ok && a.Pos().IsValid() {
				x.allocByPos[a.Pos()] = a
			}
		}
	}
	// attach AST loop statements (for resolving range keys in invariants)
	if syn := fn.Syntax(); syn != nil {
		var body ast.Node
		switch s := syn.(type) {
		case *ast.FuncDecl:
			body = s.Body
		case *ast.FuncLit:
			body = s.Body
		}
		al := astLoops(body)
		var real []*loopInfo
		for _, li := range x.loopList {
			k := li.header.Comment
			if k == "for.loop" || k == "for.body" || k == "rangeindex.loop" || k == "rangeiter.loop" || k == "for.post" || strings.HasPrefix(k, "range") {
				real = append(real, li)
			}
		}
		if len(real) == len(al) {
			for i, li := range real {
				li.stmt = al[i]
			}
		}
	}
	// defer sites: activation flags start false (a path that does not execute the
	// defer statement must not run the deferred call)
	for _, b := range fn.Blocks {
		for _, in := range b.Instrs {
			if d, ok := in.(*ssa.Defer); ok {
				key := fmt.Sprintf("L:%s:defer%d", x.prefix, len(x.defers))
				x.defers = append(x.defers, deferRec{key: key, call: d})
				st0.cells[key] = Val{T: types.Typ[types.Bool], S: "false"}
			}
		}
	}
	x.keysUseObligations(st0)
	// reverse postorder ignoring back edges
	order := x.rpo()
	incoming := map[*ssa.BasicBlock]*blockIn{}
	incoming[fn.Blocks[0]] = &blockIn{edges: []edgeState{{from: -1, st: st0}}}
	tail := x.tailBlocks()
	for _, b := range order {
		in := incoming[b]
		if in == nil || len(in.edges) == 0 {
			continue // unreachable
		}
		if tail[b] && !x.inline {
			delete(incoming, b)
			for _, e := range in.edges {
				x.execTail(b, e.from, e.st.clone())
			}
			continue
		}
		var st *State
		if li, ok := x.loops[b]; ok {
			st = x.enterLoop(li, in.edges)
		} else {
			if !x.inline {
				x.c.curBlock = b.Index
			}
			st = x.c.merge(in.edges)
			x.bindPhis(b, in.edges, st)
		}
		delete(incoming, b)
		x.execBlock(b, st, incoming)
	}
}

// tailBlocks: blocks that are in no loop and from which no loop can be reached.
func (x *Exec) tailBlocks() map[*ssa.BasicBlock]bool {
	inLoop := map[*ssa.BasicBlock]bool{}
	for _, li := range x.loopList {
		for b := range li.body {
			inLoop[b] = true
		}
	}
	memo := map[*ssa.BasicBlock]int{} // 1 = reaches loop, 2 = does not
	var reach func(b *ssa.BasicBlock) bool
	reach = func(b *ssa.BasicBlock) bool {
		if inLoop[b] {
			return true
		}
		if m := memo[b]; m != 0 {
			return m == 1
		}
		memo[b] = 2
		r := false
		for _, s := range b.Succs {
			if reach(s) {
				r = true
			}
		}
		if r {
			memo[b] = 1
		}
		return r
	}
	out := map[*ssa.BasicBlock]bool{}
	if len(x.loopList) == 0 {
		return out // loop-free functions keep the merging strategy (bounded query count)
	}
	for _, b := range x.fn.Blocks {
		if !reach(b) {
			out[b] = true
		}
	}
	return out
}

func (x *Exec) rpo() []*ssa.BasicBlock {
	fn := x.fn
	seen := map[*ssa.BasicBlock]bool{}
	var post []*ssa.BasicBlock
	var dfs func(b *ssa.BasicBlock)
	dfs = func(b *ssa.BasicBlock) {
		seen[b] = true
		for _, s := range b.Succs {
			if s.Dominates(b) {
				continue // back edge
			}
			if !seen[s] {
				dfs(s)
			}
		}
		post = append(post, b)
	}
	dfs(fn.Blocks[0])
	if fn.Recover != nil && !seen[fn.Recover] {
		// recover blocks are not modelled
	}
	for i, j := 0, len(post)-1; i < j; i, j = i+1, j-1 {
		post[i], post[j] = post[j], post[i]
	}
	return post
}

func (x *Exec) bindPhis(b *ssa.BasicBlock, edges []edgeState, st *State) {
	for _, in := range b.Instrs {
		phi, ok := in.(*ssa.Phi)
		if !ok {
			break
		}
		var vals []Val
		var gs []string
		for _, e := range edges {
			for pi, pr := range b.Preds {
				if pr.Index == e.from {
					vals = append(vals, x.val(e.st, phi.Edges[pi]))
					gs = append(gs, e.st.guard)
					break
				}
			}
		}
		if len(vals) == 0 {
			panic(unsupported("phi without matching edge"))
		}
		mv := x.c.mergeVals("L:phi", vals, gs)
		mv.T = phi.Type()
		x.vals[phi] = mv
	}
}

func (x *Exec) pushEdge(from, to *ssa.BasicBlock, st *State, incoming map[*ssa.BasicBlock]*blockIn) {
	if st.guard == "false" {
		return
	}
	if li, ok := x.loops[to]; ok && li.body[from] && to.Dominates(from) {
		x.backEdge(li, st)
		return
	}
	x.exitEdges(from, to, st)
	in := incoming[to]
	if in == nil {
		in = &blockIn{}
		incoming[to] = in
	}
	in.edges = append(in.edges, edgeState{from: from.Index, st: st})
}

// ---------------------------------------------------------------------
// loops

type loopMods struct {
	locals  map[string]*ssa.Alloc
	regions map[string]bool
	all     bool
	reads   bool // the body may read input (the ghost tape cursor may move)
	writes  bool // the body may write output (the ghost output cursor may move)
	locks   bool // the body may lock or unlock a mutex
}

func (x *Exec) loopModSet(li *loopInfo) *loopMods {
	lm := &loopMods{locals: map[string]*ssa.Alloc{}, regions: map[string]bool{}}
	ms := &ModSet{Regions: map[string]bool{}}
	for b := range li.body {
		for _, in := range b.Instrs {
			if a, ok := in.(*ssa.Alloc); ok && (!a.Heap || privateAlloc(a)) {
				lm.locals[x.cellKey(a)] = a
			}
			if s, ok := in.(*ssa.Store); ok {
				if a := rootAlloc(s.Addr); a != nil && (!a.Heap || privateAlloc(a)) {
					lm.locals[x.cellKey(a)] = a
					continue
				}
			}
			x.p.instrMods(x.c, in, ms, x.fn)
			// captured variables kept as local cells that a closure called here assigns
			var cv *ssa.CallCommon
			switch in := in.(type) {
			case *ssa.Call:
				cv = &in.Call
			case *ssa.Defer:
				cv = &in.Call
			}
			if cv != nil && !cv.IsInvoke() {
				if callee := resolveCallee(cv.Value); callee != nil && callee.Parent() != nil {
					for _, a := range closureStores(callee, map[*ssa.Function]bool{}) {
						if !a.Heap || privateAlloc(a) {
							lm.locals[x.cellKey(a)] = a
						}
					}
				}
			}
		}
	}
	lm.regions = ms.Regions
	lm.all = ms.All
	lm.reads = ms.Reads || ms.All
	lm.writes = ms.Writes || ms.All
	lm.locks = ms.Locks
	return lm
}

// closureStores: the variables of enclosing functions that the closure fn
// (or a closure it calls) assigns through its free variables.
func closureStores(fn *ssa.Function, seen map[*ssa.Function]bool) []*ssa.Alloc {
	if seen[fn] {
		return nil
	}
	seen[fn] = true
	var out []*ssa.Alloc
	for _, b := range fn.Blocks {
		for _, in := range b.Instrs {
			switch in := in.(type) {
			case *ssa.Store:
				if fv := rootFreeVar(in.Addr); fv != nil {
					out = append(out, bindingAllocs(fv)...)
				}
			case *ssa.Call:
				if !in.Call.IsInvoke() {
					if callee := resolveCallee(in.Call.Value); callee != nil && callee.Parent() != nil {
						out = append(out, closureStores(callee, seen)...)
					}
				}
			case *ssa.Defer:
				if !in.Call.IsInvoke() {
					if callee := resolveCallee(in.Call.Value); callee != nil && callee.Parent() != nil {
						out = append(out, closureStores(callee, seen)...)
					}
				}
			}
		}
	}
	return out
}

func rootFreeVar(v ssa.Value) *ssa.FreeVar {
	for {
		switch a := v.(type) {
		case *ssa.FreeVar:
			return a
		case *ssa.FieldAddr:
			v = a.X
		case *ssa.IndexAddr:
			if _, ok := a.X.Type().Underlying().(*types.Pointer); ok {
				v = a.X
			} else {
				return nil
			}
		default:
			return nil
		}
	}
}

// bindingAllocs: the variables a free variable may be bound to.
func bindingAllocs(fv *ssa.FreeVar) []*ssa.Alloc {
	fn := fv.Parent()
	par := fn.Parent()
	if par == nil {
		return nil
	}
	idx := -1
	for i, f := range fn.FreeVars {
		if f == fv {
			idx = i
		}
	}
	var out []*ssa.Alloc
	for _, b := range par.Blocks {
		for _, in := range b.Instrs {
			mc, ok := in.(*ssa.MakeClosure)
			if !ok || mc.Fn != ssa.Value(fn) || idx < 0 || idx >= len(mc.Bindings) {
				continue
			}
			switch bv := mc.Bindings[idx].(type) {
			case *ssa.Alloc:
				out = append(out, bv)
			case *ssa.FreeVar:
				out = append(out, bindingAllocs(bv)...)
			}
		}
	}
	return out
}

// privateAlloc: a variable that is captured by closures but cannot be
// reached by any other code: every use is a direct load/store or the binding
// of a closure that is only ever called or deferred by this function.  Such
// a variable is kept as a local cell (callees cannot modify it).
var privateCache = map[*ssa.Alloc]bool{}

func privateAlloc(a *ssa.Alloc) bool {
	if v, ok := privateCache[a]; ok {
		return v
	}
	res := computePrivate(a)
	privateCache[a] = res
	return res
}

func computePrivate(a *ssa.Alloc) bool {
	if !a.Heap || a.Referrers() == nil {
		return false
	}
	et := a.Type().(*types.Pointer).Elem()
	switch et.Underlying().(type) {
	case *types.Array:
		return false
	}
	sawClosure := false
	for _, r := range *a.Referrers() {
		switch r := r.(type) {
		case *ssa.Store:
			if r.Val == ssa.Value(a) {
				return false
			}
		case *ssa.UnOp, *ssa.DebugRef:
		case *ssa.MakeClosure:
			sawClosure = true
			if !closureConfined(r) {
				return false
			}
		default:
			return false
		}
	}
	return sawClosure
}

// closureConfined: the closure value is only called or deferred (possibly
// after being kept in a local variable that is itself only loaded and called).
func closureConfined(mc *ssa.MakeClosure) bool {
	if mc.Referrers() == nil {
		return false
	}
	for _, r := range *mc.Referrers() {
		switch r := r.(type) {
		case *ssa.Call:
			if r.Call.Value != ssa.Value(mc) {
				return false
			}
		case *ssa.Defer:
			if r.Call.Value != ssa.Value(mc) {
				return false
			}
		case *ssa.DebugRef:
		case *ssa.Store:
			la, ok := r.Addr.(*ssa.Alloc)
			if !ok || la.Referrers() == nil {
				return false
			}
			nstores := 0
			for _, lr := range *la.Referrers() {
				switch lr := lr.(type) {
				case *ssa.Store:
					if lr.Addr != ssa.Value(la) {
						return false
					}
					nstores++
				case *ssa.DebugRef:
				case *ssa.UnOp:
					if !onlyCalled(lr) {
						return false
					}
				case *ssa.MakeClosure:
					// the variable is captured by a sibling closure that only loads and calls it
					fn2, ok := lr.Fn.(*ssa.Function)
					if !ok {
						return false
					}
					for i, b := range lr.Bindings {
						if b != ssa.Value(la) {
							continue
						}
						fv := fn2.FreeVars[i]
						if fv.Referrers() == nil {
							continue
						}
						for _, fr := range *fv.Referrers() {
							switch fr := fr.(type) {
							case *ssa.UnOp:
								if !onlyCalled(fr) {
									return false
								}
							case *ssa.DebugRef:
							default:
								return false
							}
						}
					}
				default:
					return false
				}
			}
			if la.Heap && nstores != 1 {
				return false
			}
		default:
			return false
		}
	}
	return true
}

// onlyCalled: a loaded function value that is only used as the callee of calls.
func onlyCalled(lr *ssa.UnOp) bool {
	if lr.Referrers() == nil {
		return false
	}
	for _, ur := range *lr.Referrers() {
		switch ur := ur.(type) {
		case *ssa.Call:
			if ur.Call.Value != ssa.Value(lr) {
				return false
			}
		case *ssa.DebugRef:
		default:
			return false
		}
	}
	return true
}

func rootAlloc(v ssa.Value) *ssa.Alloc {
	for {
		switch a := v.(type) {
		case *ssa.Alloc:
			return a
		case *ssa.FieldAddr:
			v = a.X
		case *ssa.IndexAddr:
			// only arrays held in a local cell; slices point elsewhere
			if _, ok := a.X.Type().Underlying().(*types.Pointer); ok {
				v = a.X
			} else {
				return nil
			}
		default:
			return nil
		}
	}
}

func (x *Exec) loopContract(li *loopInfo) *LoopContract {
	if x.fc == nil {
		return nil
	}
	return x.fc.Loops[li.ord]
}

func (x *Exec) enterLoop(li *loopInfo, edges []edgeState) *State {
	if !x.inline {
		x.c.curBlock = li.header.Index
	}
	entry := x.c.merge(edges)
	x.c.curGuard = entry.guard
	x.bindPhis(li.header, edges, entry)
	lc := x.loopContract(li)
	pos := x.loopPos(li)
	// invariant initiation
	if lc != nil {
		for i, inv := range lc.Invariants {
			env := x.loopEnv(li, entry)
			goal := x.evalClause(env, inv)
			x.oblige(entry, "inv-init", pos, goal, x.clauseTag(inv, fmt.Sprintf("loop%d.inv%d", li.ord, i+1)), x.clauseProps(inv))
		}
	}
	// implicit invariants: the type invariants of the function's parameters
	for i, inv := range x.implicitLoopInvs() {
		env := x.loopEnv(li, entry)
		x.oblige(entry, "inv-init", pos, x.evalClause(env, inv), fmt.Sprintf("loop%d.typeinv%d", li.ord, i+1), nil)
	}
	// implicit invariant of range-over-slice loops: the hidden index is >= -1
	if inv := x.rangeInv(li, entry); inv != "" {
		x.oblige(entry, "inv-init", pos, inv, fmt.Sprintf("loop%d.rangeindex", li.ord), nil)
	}
	st := entry.clone()
	lm := x.loopModSet(li)
	// havoc
	keys := make([]string, 0, len(lm.locals))
	for k := range lm.locals {
		keys = append(keys, k)
	}
	sort.Strings(keys)
	for _, k := range keys {
		a := lm.locals[k]
		old, ok := st.cells[k]
		if !ok {
			continue // declared inside the loop: initialised by its Alloc
		}
		et := a.Type().(*types.Pointer).Elem()
		if old.S == "" {
			st.cells[k] = Val{T: et, Undef: true}
			continue
		}
		n := x.c.freshConst("h_"+a.Comment, et)
		st.cells[k] = Val{T: et, S: n}
		x.c.assume(x.c.wfAt(et, n, x.c.alloc(st)))
	}
	// range over string: the hidden position is changed by every iteration
	if rng := stringRangeOf(li); rng != nil {
		key := x.strPosKey(rng)
		if _, ok := st.cells[key]; ok {
			intT := types.Typ[types.Int]
			n := x.c.freshConst("h_strpos", intT)
			st.cells[key] = Val{T: intT, S: n}
			sv := x.val(st, rng.X)
			x.c.assume(and(sx("<=", "0", n), sx("<=", n, sx("gstr_len", sv.S))))
		}
	}
	if lm.reads && !lm.all {
		x.c.havocTpos(st, x.c.region(st, "$tpos"))
		x.c.havocRfault(st)
	}
	if lm.writes && !lm.all {
		x.c.havocOpos(st)
	}
	if lm.writes {
		x.c.havocWfault(st)
		x.c.havocBuflen(st)
	}
	if lm.locks {
		st.cells["$held"] = Val{S: x.c.freshSort("held", "Bool")}
	}
	if lm.all {
		x.c.havocAll(st)
	} else {
		rs := make([]string, 0, len(lm.regions))
		for r := range lm.regions {
			rs = append(rs, r)
		}
		sort.Strings(rs)
		for _, r := range rs {
			x.c.havocRegion(st, r)
		}
	}
	if inv := x.rangeInv(li, st); inv != "" {
		x.assumeG(st, inv)
	}
	for _, inv := range x.implicitLoopInvs() {
		env := x.loopEnv(li, st)
		x.assumeG(st, x.evalClause(env, inv))
	}
	if lc != nil {
		for _, inv := range lc.Invariants {
			env := x.loopEnv(li, st)
			x.assumeG(st, x.evalClause(env, inv))
		}
		if lc.Decreases != nil {
			env := x.loopEnv(li, st)
			v := x.evalExprClause(env, lc.Decreases)
			x.loopVar[li.header] = x.c.toIdx(v.T, v.S)
		}
	}
	x.loopSnap[li.header] = st.clone()
	x.mapOrderCheck(li, st.clone())
	return st
}

func (x *Exec) loopPos(li *loopInfo) token.Pos {
	if li.stmt != nil {
		return li.stmt.Pos()
	}
	for b := range li.body {
		for _, in := range b.Instrs {
			if in.Pos().IsValid() {
				_ = b
			}
		}
	}
	for _, in := range li.header.Instrs {
		if in.Pos().IsValid() {
			return in.Pos()
		}
	}
	return token.NoPos
}

// implicitLoopInvs: the type invariants of parameters hold at every loop head.
func (x *Exec) implicitLoopInvs() []*Clause {
	if x.fc == nil || x.fc.NoLoopInv {
		return nil
	}
	return x.fc.LoopTypeInvs
}

// rangeInv: -1 <= rangeindex < len(ranged slice) for range-over-slice loops.
func (x *Exec) rangeInv(li *loopInfo, st *State) string {
	ri := rangeIndexAlloc(li)
	if ri == nil {
		return ""
	}
	cur, ok := st.cells[x.cellKey(ri)]
	if !ok || cur.S == "" {
		return ""
	}
	intT := types.Typ[types.Int]
	c := x.c
	inv := c.compare(token.GEQ, intT, cur.S, c.intConst(intT, newBig(-1)))
	for _, in := range li.header.Instrs {
		if b, ok := in.(*ssa.BinOp); ok && b.Op == token.LSS {
			if k, isConst := b.Y.(*ssa.Const); isConst {
				inv = and(inv, c.compare(token.LSS, intT, cur.S, x.constant(k).S))
			} else if lv, ok := x.vals[b.Y]; ok && lv.S != "" {
				inv = and(inv, c.compare(token.LSS, intT, cur.S, lv.S))
			}
		}
	}
	return inv
}

// stringRangeOf: the Range instruction of a `for ... range <string>` loop.
func stringRangeOf(li *loopInfo) *ssa.Range {
	for _, in := range li.header.Instrs {
		if n, ok := in.(*ssa.Next); ok && n.IsString {
			if r, ok := n.Iter.(*ssa.Range); ok {
				return r
			}
		}
	}
	return nil
}

func rangeIndexAlloc(li *loopInfo) *ssa.Alloc {
	if li.header.Comment != "rangeindex.loop" {
		return nil
	}
	for _, in := range li.header.Instrs {
		if u, ok := in.(*ssa.UnOp); ok && u.Op == token.MUL {
			if a, ok := u.X.(*ssa.Alloc); ok && a.Comment == "rangeindex" {
				return a
			}
		}
	}
	return nil
}

func (x *Exec) backEdge(li *loopInfo, st *State) {
	lc := x.loopContract(li)
	pos := x.loopPos(li)
	if inv := x.rangeInv(li, st); inv != "" {
		x.oblige(st, "inv-pres", pos, inv, fmt.Sprintf("loop%d.rangeindex", li.ord), nil)
	}
	for i, inv := range x.implicitLoopInvs() {
		env := x.loopEnv(li, st)
		x.oblige(st, "inv-pres", pos, x.evalClause(env, inv), fmt.Sprintf("loop%d.typeinv%d", li.ord, i+1), nil)
	}
	if lc == nil {
		return
	}
	for i, inv := range lc.Invariants {
		env := x.loopEnv(li, st)
		goal := x.evalClause(env, inv)
		x.oblige(st, "inv-pres", pos, goal, x.clauseTag(inv, fmt.Sprintf("loop%d.inv%d", li.ord, i+1)), x.clauseProps(inv))
	}
	for i, bw := range lc.BackWhen {
		env := x.loopEnv(li, st)
		x.oblige(st, "back-when", pos, x.evalClause(env, bw), x.clauseTag(bw, fmt.Sprintf("loop%d.back%d", li.ord, i+1)), x.clauseProps(bw))
	}
	if lc.Decreases != nil {
		env := x.loopEnv(li, st)
		v := x.evalExprClause(env, lc.Decreases)
		nv := x.c.toIdx(v.T, v.S)
		ov := x.loopVar[li.header]
		x.oblige(st, "decreases", pos, and(sx("<=", "0", ov), sx("<", nv, ov)), x.clauseTag(lc.Decreases, fmt.Sprintf("loop%d.decreases", li.ord)), x.clauseProps(lc.Decreases))
	}
}

// exitEdges checks the exit-when clauses of every loop left by the edge from -> to.
func (x *Exec) exitEdges(from, to *ssa.BasicBlock, st *State) {
	for _, li := range x.loopList {
		x.loopExt(li)
		if !(li.body[from] || li.ext[from]) || li.body[to] || li.ext[to] {
			continue
		}
		if li.stmt == nil && !strings.HasSuffix(to.Comment, ".done") {
			continue // not a normal loop exit (break / condition false) but a return from inside the loop
		}
		lc := x.loopContract(li)
		if lc == nil {
			continue
		}
		for i, ew := range lc.ExitWhen {
			env := x.loopEnv(li, st)
			x.oblige(st, "exit-when", x.loopPos(li), x.evalClause(env, ew), x.clauseTag(ew, fmt.Sprintf("loop%d.exit%d", li.ord, i+1)), x.clauseProps(ew))
		}
	}
}

// loopExt computes the blocks that belong to the loop statement although they
// are outside the natural loop: code in front of a break or a return, i.e.
// blocks all of whose predecessors are in the loop (or in ext) and whose
// instructions lie inside the source range of the loop statement.  An edge
// that leaves body+ext is a normal exit of the loop (go/ssa may have fused the
// "done" block with the code that follows the loop, so block names are no guide).
func (x *Exec) loopExt(li *loopInfo) {
	if li.ext != nil {
		return
	}
	li.ext = map[*ssa.BasicBlock]bool{}
	inside := func(b *ssa.BasicBlock) bool {
		if li.stmt == nil {
			return !strings.HasSuffix(b.Comment, ".done")
		}
		seen := false
		for _, in := range b.Instrs {
			p := in.Pos()
			if dr, ok := in.(*ssa.DebugRef); ok {
				p = dr.Expr.Pos()
			}
			if !p.IsValid() {
				continue
			}
			seen = true
			if p < li.stmt.Pos() || p > li.stmt.End() {
				return false
			}
		}
		if !seen {
			return !strings.HasSuffix(b.Comment, ".done")
		}
		return true
	}
	for changed := true; changed; {
		changed = false
		for _, b := range x.fn.Blocks {
			if li.body[b] || li.ext[b] || len(b.Preds) == 0 || !inside(b) {
				continue
			}
			all := true
			for _, pr := range b.Preds {
				if !li.body[pr] && !li.ext[pr] {
					all = false
				}
			}
			if all {
				li.ext[b] = true
				changed = true
			}
		}
	}
}

func (x *Exec) clauseTag(cl *Clause, dflt string) string {
	if len(cl.Tags) > 0 {
		return strings.Join(cl.Tags, ",") + ":" + dflt
	}
	return dflt
}

func (x *Exec) clauseProps(cl *Clause) []string {
	if len(cl.Tags) == 0 {
		return x.props
	}
	seen := map[string]bool{}
	var out []string
	for _, t := range cl.Tags {
		p := propOfTag(t)
		if !seen[p] {
			seen[p] = true
			out = append(out, p)
		}
	}
	return out
}

// ---------------------------------------------------------------------
// blocks and instructions

func (x *Exec) execBlock(b *ssa.BasicBlock, st *State, incoming map[*ssa.BasicBlock]*blockIn) {
	x.execBlockWith(b, st, func(from, to *ssa.BasicBlock, s *State) { x.pushEdge(from, to, s, incoming) })
}

// execTail runs a block of the loop-free tail of the function path by path
// (no merging): postconditions are then checked on unmerged states.
func (x *Exec) execTail(b *ssa.BasicBlock, from int, st *State) {
	x.tailPaths++
	if x.tailPaths > 256 {
		panic(unsupported("too many paths in the loop-free tail of " + x.key))
	}
	x.bindPhis(b, []edgeState{{from: from, st: st}}, st)
	x.execBlockWith(b, st, func(f, to *ssa.BasicBlock, s *State) {
		if s.guard == "false" {
			return
		}
		x.exitEdges(f, to, s)
		x.execTail(to, f.Index, s)
	})
}

func (x *Exec) execBlockWith(b *ssa.BasicBlock, st *State, push func(from, to *ssa.BasicBlock, s *State)) {
	if !x.inline && !x.muted {
		x.c.curBlock = b.Index
	}
	x.c.curGuard = st.guard
	for _, in := range b.Instrs {
		if ls := x.lemmaAt[in]; len(ls) > 0 && !x.inline {
			x.checkLemmas(st, in, ls)
		}
		switch in := in.(type) {
		case *ssa.Phi:
			continue
		case *ssa.DebugRef:
			continue
		case *ssa.If:
			cond := x.val(st, in.Cond).S
			cn := x.c.def("b", "Bool", cond)
			t := st.clone()
			t.guard = x.c.def("g", "Bool", and(st.guard, cn))
			f := st.clone()
			f.guard = x.c.def("g", "Bool", and(st.guard, not(cn)))
			push(b, b.Succs[0], t)
			push(b, b.Succs[1], f)
			return
		case *ssa.Jump:
			push(b, b.Succs[0], st)
			return
		case *ssa.Return:
			x.doReturn(st, in)
			return
		case *ssa.Panic:
			if !x.ghost {
				x.oblige(st, "panic", in.Pos(), "false", "", nil)
			}
			return
		default:
			x.instr(st, in)
		}
	}
}

func (x *Exec) doReturn(st *State, r *ssa.Return) {
	var res []Val
	for _, v := range r.Results {
		res = append(res, x.val(st, v))
	}
	if x.inline {
		x.rets = append(x.rets, retRec{st: st, results: res})
		return
	}
	if x.muted {
		x.mutedExit = st.guard
		return
	}
	x.checkEnsures(st, res, r.Pos())
}

func (x *Exec) instr(st *State, in ssa.Instruction) {
	c := x.c
	c.curGuard = st.guard
	switch in := in.(type) {
	case *ssa.Alloc:
		x.doAlloc(st, in)
	case *ssa.Store:
		addr := x.val(st, in.Addr)
		v := x.val(st, in.Val)
		x.store(st, addr, v, in.Pos())
	case *ssa.UnOp:
		x.vals[in] = x.unop(st, in)
	case *ssa.BinOp:
		x.vals[in] = x.binop(st, in)
	case *ssa.Call:
		x.vals[in] = x.call(st, &in.Call, in, in.Pos())
	case *ssa.ChangeType:
		v := x.val(st, in.X)
		v.T = in.Type()
		x.vals[in] = v
	case *ssa.Convert:
		x.vals[in] = x.convert(st, in)
	case *ssa.MakeInterface:
		x.vals[in] = x.makeIface(x.val(st, in.X), in.Type())
	case *ssa.ChangeInterface:
		v := x.val(st, in.X)
		v.T = in.Type()
		x.vals[in] = v
	case *ssa.TypeAssert:
		x.vals[in] = x.typeAssert(st, in)
	case *ssa.Extract:
		t := x.val(st, in.Tuple)
		if in.Index >= len(t.Tup) {
			panic(unsupported("extract from non-tuple"))
		}
		x.vals[in] = t.Tup[in.Index]
	case *ssa.FieldAddr:
		x.vals[in] = x.fieldAddr(st, in)
	case *ssa.Field:
		v := x.val(st, in.X)
		stt := in.X.Type().Underlying().(*types.Struct)
		name := c.structSort(in.X.Type())
		x.vals[in] = Val{T: in.Type(), S: sx(structFieldSel(name, in.Field, stt), v.S)}
	case *ssa.IndexAddr:
		x.vals[in] = x.indexAddr(st, in)
	case *ssa.Index:
		x.vals[in] = x.index(st, in)
	case *ssa.Lookup:
		x.vals[in] = x.lookup(st, in)
	case *ssa.MapUpdate:
		x.mapUpdate(st, in)
	case *ssa.MakeMap:
		ref := c.newRef(st)
		has, _, ln := c.mapRegions(in.Type())
		hs := c.regions[has]
		inner := hs[len("(Array Int ") : len(hs)-1]
		c.setRegion(st, has, sx("store", c.region(st, has), ref, fmt.Sprintf("((as const %s) false)", inner)))
		c.setRegion(st, ln, sx("store", c.region(st, ln), ref, "0"))
		if in.Reserve != nil {
			r := x.val(st, in.Reserve)
			_ = r // a negative size hint is ignored by the runtime for make(map, n)? No: it panics for n<0 only via makemap_small; keep an obligation
			x.oblige(st, "make", in.Pos(), c.compare(token.GEQ, r.T, r.S, c.intConst(r.T, bigZero)), "", nil)
		}
		x.vals[in] = Val{T: in.Type(), S: ref}
	case *ssa.MakeSlice:
		x.vals[in] = x.makeSlice(st, in)
	case *ssa.MakeClosure:
		fn := in.Fn.(*ssa.Function)
		var binds []Val
		for _, b := range in.Bindings {
			binds = append(binds, x.val(st, b))
		}
		x.vals[in] = Val{T: in.Type(), S: fmt.Sprint(x.p.fnID(fn)), Fn: &FnRef{Name: x.p.funcKey(fn), Fn: fn, Binds: binds}}
	case *ssa.Slice:
		x.vals[in] = x.sliceOp(st, in)
	case *ssa.Range:
		x.vals[in] = x.rangeInit(st, in)
	case *ssa.Next:
		x.vals[in] = x.next(st, in)
	case *ssa.RunDefers:
		x.runDefers(st)
	case *ssa.Defer:
		x.doDefer(st, in)
	default:
		panic(unsupported(fmt.Sprintf("instruction %T", in)))
	}
}

var bigZero = newBig(0)

func (x *Exec) doAlloc(st *State, a *ssa.Alloc) {
	c := x.c
	et := a.Type().(*types.Pointer).Elem()
	if !a.Heap || privateAlloc(a) {
		key := x.cellKey(a)
		if isExecLevel(et) {
			st.cells[key] = Val{T: et, Undef: true}
		} else {
			st.cells[key] = Val{T: et, S: c.zero(et)}
		}
		x.vals[a] = Val{T: a.Type(), P: &Ptr{Kind: pCell, Cell: key, BaseT: et}}
		return
	}
	ref := c.newRef(st)
	switch u := et.Underlying().(type) {
	case *types.Struct:
		c.storeStruct(st, et, ref, c.zero(et))
		x.vals[a] = Val{T: a.Type(), S: ref}
	case *types.Array:
		r, _ := c.elemRegion(u.Elem())
		c.setRegion(st, r, sx("store", c.region(st, r), ref, c.zero(et)))
		x.vals[a] = Val{T: a.Type(), S: ref}
	default:
		r, _ := c.cellRegion(et)
		c.setRegion(st, r, sx("store", c.region(st, r), ref, c.zero(et)))
		x.vals[a] = Val{T: a.Type(), S: ref}
	}
}

// isExecLevel: values of this type are tracked by the executor, not in SMT.
func isExecLevel(t types.Type) bool {
	if p, ok := t.Underlying().(*types.Pointer); ok {
		switch p.Elem().Underlying().(type) {
		case *types.Struct, *types.Array:
			return false
		}
		return false
	}
	if _, ok := t.Underlying().(*types.Tuple); ok {
		return true
	}
	return false
}

// ptrOf turns a pointer value into an executor-level pointer.
func (x *Exec) ptrOf(v Val) *Ptr {
	if v.P != nil {
		return v.P
	}
	pt, ok := v.T.Underlying().(*types.Pointer)
	if !ok {
		panic(unsupported("dereference of non-pointer " + v.T.String()))
	}
	et := pt.Elem()
	switch u := et.Underlying().(type) {
	case *types.Struct:
		return nil // whole-struct access handled by caller
	case *types.Array:
		_ = u
		return nil
	}
	return &Ptr{Kind: pHeap, Ref: v.S, BaseT: et}
}

func (x *Exec) nilCheck(st *State, ref string, pos token.Pos) {
	x.oblige(st, "nil", pos, not(eq(ref, "0")), "", nil)
}

func (x *Exec) load(st *State, addr Val, pos token.Pos) Val {
	c := x.c
	pt := addr.T.Underlying().(*types.Pointer)
	et := pt.Elem()
	if addr.P != nil {
		if addr.P.Kind == pCell && len(addr.P.Path) == 0 {
			if g, isG := addr.P.G.(*ssa.Global); isG {
				if cv, ok := x.constGlobalVal(g); ok {
					return cv
				}
			}
			v, ok := st.cells[addr.P.Cell]
			if !ok {
				if isRegionKey(addr.P.Cell) { // global
					n := c.regionInit(addr.P.Cell, st.gen)
					c.assume(c.wfAt(et, n, c.alloc(st)))
					return Val{T: et, S: n}
				}
				panic(unsupported("load of dead local " + addr.P.Cell))
			}
			if v.Undef {
				return Val{T: et, Undef: true}
			}
			v.T = et
			return v
		}
		s, _ := c.loadPtr(st, addr.P)
		if addr.P.Kind != pCell {
			c.assume(c.wfAt(et, s, c.alloc(st)))
			x.assumeValueInv(st, et, s, addr.P.Kind == pField)
		}
		return Val{T: et, S: s}
	}
	x.nilCheck(st, addr.S, pos)
	switch u := et.Underlying().(type) {
	case *types.Struct:
		s := c.loadStruct(st, et, addr.S)
		c.assume(c.wfAt(et, s, c.alloc(st)))
		return Val{T: et, S: s}
	case *types.Array:
		r, _ := c.elemRegion(u.Elem())
		return Val{T: et, S: sx("select", c.region(st, r), addr.S)}
	}
	p := &Ptr{Kind: pHeap, Ref: addr.S, BaseT: et}
	s, _ := c.loadPtr(st, p)
	c.assume(c.wfAt(et, s, c.alloc(st)))
	x.assumeValueInv(st, et, s, false)
	return Val{T: et, S: s}
}

// value invariants -----------------------------------------------------

func (x *Exec) valueInvFor(t types.Type) *valueInv {
	star := ""
	base := t
	if pt, ok := t.(*types.Pointer); ok {
		star = "*"
		base = pt.Elem()
	}
	nt, ok := base.(*types.Named)
	if !ok || nt.Obj().Pkg() == nil {
		return nil
	}
	for _, vi := range x.p.valueInvs {
		if vi.typ == star+nt.Obj().Name() && vi.pkg == nt.Obj().Pkg().Name() {
			return vi
		}
	}
	return nil
}

// valueInvTerm instantiates the invariant (a ghost Go function) on a term.
func (x *Exec) valueInvTerm(st *State, vi *valueInv, t types.Type, term string) string {
	var nt *types.Named
	if pt, ok := t.(*types.Pointer); ok {
		nt = pt.Elem().(*types.Named)
	} else {
		nt = t.(*types.Named)
	}
	obj := nt.Obj().Pkg().Scope().Lookup(vi.fn)
	fo, ok := obj.(*types.Func)
	if !ok {
		panic(contractError{vi.line + ": valueinv names unknown function " + vi.fn})
	}
	fn := x.p.ssaProg.FuncValue(fo)
	name := "vinv_" + san(vi.pkg+"."+vi.typ)
	if _, isDef := x.p.defines[vi.pkg+"."+vi.fn]; isDef {
		panic(contractError{vi.line + ": valueinv needs a ghost Go function, not a define"})
	}
	c := x.c
	if !c.funDecls[name] {
		c.funDecls[name] = true
		c.inQuant++
		body := func() string {
			defer func() { c.inQuant-- }()
			sc := &State{guard: "true", cells: map[string]Val{}}
			v := x.inlineCall(sc, fn, nil, []Val{{T: t, S: "vinv_arg"}}, fn.Signature.Results(), true)
			return v.S
		}()
		c.decls = append(c.decls, fmt.Sprintf("(define-fun %s ((vinv_arg %s)) Bool %s)", name, c.sortOf(t), body))
	}
	return sx(name, term)
}

func (x *Exec) assumeValueInv(st *State, t types.Type, term string, isField bool) {
	vi := x.valueInvFor(t)
	if vi == nil || (isField && !vi.zeroSafe) {
		return
	}
	x.c.assumeOnPath(x.valueInvTerm(st, vi, t, term))
}

func (x *Exec) checkValueInv(st *State, t types.Type, term string, isField bool, pos token.Pos) {
	vi := x.valueInvFor(t)
	if vi == nil || (isField && !vi.zeroSafe) || x.ghost {
		return
	}
	x.oblige(st, "valueinv", pos, x.valueInvTerm(st, vi, t, term), "", nil)
}

func (x *Exec) store(st *State, addr Val, v Val, pos token.Pos) {
	c := x.c
	pt := addr.T.Underlying().(*types.Pointer)
	et := pt.Elem()
	if addr.P != nil {
		if addr.P.Kind == pCell && len(addr.P.Path) == 0 {
			if v.S == "" {
				nv := v
				nv.T = et
				st.cells[addr.P.Cell] = nv
				return
			}
			nv := v
			nv.T = et
			nv.S = c.def("c", c.sortOf(et), v.S)
			st.cells[addr.P.Cell] = nv
			return
		}
		if v.S == "" {
			panic(unsupported("store of executor-level value into memory"))
		}
		if addr.P.Kind != pCell && len(addr.P.Path) == 0 {
			x.checkValueInv(st, et, v.S, addr.P.Kind == pField, pos)
		}
		c.storePtr(st, addr.P, v.S)
		return
	}
	if v.S == "" {
		panic(unsupported("store of executor-level value into heap"))
	}
	x.nilCheck(st, addr.S, pos)
	switch u := et.Underlying().(type) {
	case *types.Struct:
		c.storeStruct(st, et, addr.S, v.S)
		return
	case *types.Array:
		r, _ := c.elemRegion(u.Elem())
		c.setRegion(st, r, sx("store", c.region(st, r), addr.S, v.S))
		return
	}
	x.checkValueInv(st, et, v.S, false, pos)
	c.storePtr(st, &Ptr{Kind: pHeap, Ref: addr.S, BaseT: et}, v.S)
}

func (x *Exec) unop(st *State, u *ssa.UnOp) Val {
	c := x.c
	switch u.Op {
	case token.MUL:
		return x.load(st, x.val(st, u.X), u.Pos())
	case token.NOT:
		return Val{T: u.Type(), S: not(x.val(st, u.X).S)}
	case token.SUB:
		v := x.val(st, u.X)
		return Val{T: u.Type(), S: c.neg(v.T, v.S)}
	case token.XOR:
		v := x.val(st, u.X)
		return Val{T: u.Type(), S: c.bitnot(v.T, v.S)}
	}
	panic(unsupported("unary op " + u.Op.String()))
}

func isCompareOp(op token.Token) bool {
	switch op {
	case token.EQL, token.NEQ, token.LSS, token.LEQ, token.GTR, token.GEQ:
		return true
	}
	return false
}

func (x *Exec) binop(st *State, b *ssa.BinOp) Val {
	l := x.val(st, b.X)
	r := x.val(st, b.Y)
	return x.binopVals(st, b.Op, l, r, b.Type(), b.Pos())
}

func (x *Exec) binopVals(st *State, op token.Token, l, r Val, resT types.Type, pos token.Pos) Val {
	c := x.c
	t := l.T
	if isCompareOp(op) {
		if op == token.EQL || op == token.NEQ {
			e := x.equal(st, l, r, pos)
			if op == token.NEQ {
				e = not(e)
			}
			return Val{T: resT, S: e}
		}
		return Val{T: resT, S: c.compare(op, t, l.S, r.S)}
	}
	res, pan := c.binop(op, t, l.S, r.S, r.T)
	if pan != "" {
		kind := "div"
		if op == token.SHL || op == token.SHR {
			kind = "shift"
		}
		x.oblige(st, kind, pos, not(pan), "", nil)
	}
	sortT := resT
	return Val{T: resT, S: c.def("t", c.sortOf(sortT), res)}
}

// equal implements Go's == on two values of the same static type.
func (x *Exec) equal(st *State, l, r Val, pos token.Pos) string {
	c := x.c
	t := l.T
	if b, ok := t.Underlying().(*types.Basic); ok && b.Kind() == types.UntypedNil {
		t = r.T
	}
	switch t.Underlying().(type) {
	case *types.Interface:
		ls, rs := l.S, r.S
		if !isIface(r.T) {
			rs = x.makeIface(r, t).S
		}
		if !isIface(l.T) {
			ls = x.makeIface(l, t).S
		}
		// comparing two interfaces holding the same uncomparable dynamic type panics
		if un := x.uncomparableSame(ls, rs, t); un != "false" {
			x.oblige(st, "ifacecmp", pos, not(un), "", nil)
		}
		return eq(ls, rs)
	case *types.Slice:
		// only comparison with nil is legal
		if r.S == "0" || r.S == "(mk-slice 0 0 0 0)" {
			return eq(sRef(l.S), "0")
		}
		if l.S == "0" || l.S == "(mk-slice 0 0 0 0)" {
			return eq(sRef(r.S), "0")
		}
		panic(unsupported("slice comparison"))
	case *types.Basic:
		if isString(t) {
			return x.strEq(l.S, r.S)
		}
		return c.compare(token.EQL, t, l.S, r.S)
	}
	return eq(l.S, r.S)
}

// strEq: equality of strings; comparison against a literal is expanded
// into length and bytes (sound: that is what string equality means).
func (x *Exec) strEq(a, b string) string {
	c := x.c
	for _, pair := range [][2]string{{a, b}, {b, a}} {
		lit, other := pair[0], pair[1]
		if strings.HasPrefix(lit, "gstr_k") && !strings.HasPrefix(other, "gstr_k") {
			for s, n := range c.strConsts {
				if n == lit && len(s) <= 16 {
					conj := []string{eq(sx("gstr_len", other), fmt.Sprint(len(s)))}
					for i := 0; i < len(s); i++ {
						conj = append(conj, eq(sx("gstr_at", other, fmt.Sprint(i)), c.intConst(types.Typ[types.Uint8], newBig(int64(s[i])))))
					}
					c.assume(eq(eq(other, lit), and(conj...)))
				}
			}
		}
	}
	return eq(a, b)
}

func (x *Exec) uncomparableSame(a, b string, static types.Type) string {
	var cases []string
	it, _ := static.Underlying().(*types.Interface)
	for _, t := range x.p.ifaceTypes {
		if it != nil && !types.Implements(t, it) {
			continue // cannot be the dynamic type of a value of this interface type
		}
		if !types.Comparable(t) {
			n := ifaceCtorName(t)
			// skip if either side is syntactically another constructor
			if definitelyNot(a, n) || definitelyNot(b, n) {
				continue
			}
			cases = append(cases, and(sx("(_ is "+n+")", a), sx("(_ is "+n+")", b)))
		}
	}
	return or(cases...)
}

func definitelyNot(term, ctor string) bool {
	if term == "I_nil" {
		return true
	}
	if strings.HasPrefix(term, "(I_") {
		return !strings.HasPrefix(term, "("+ctor+" ")
	}
	return false
}

func (x *Exec) convert(st *State, cv *ssa.Convert) Val {
	c := x.c
	v := x.val(st, cv.X)
	from, to := cv.X.Type(), cv.Type()
	_, _, fi := intInfo(from)
	_, _, ti := intInfo(to)
	switch {
	case (fi || isFloat(from)) && (ti || isFloat(to)):
		return Val{T: to, S: c.def("cv", c.sortOf(to), c.convert(from, to, v.S))}
	case isString(from) && isString(to):
		return Val{T: to, S: v.S}
	case isString(to) && isByteSlice(from):
		return Val{T: to, S: x.bytesToString(st, v.S)}
	case isByteSlice(to) && isString(from):
		return Val{T: to, S: x.stringToBytes(st, v.S)}
	case isString(to) && fi:
		// string(rune): opaque
		r := c.freshConst("runestr", to)
		c.assume(c.wf(to, r))
		return Val{T: to, S: r}
	}
	if _, ok := from.Underlying().(*types.Slice); ok {
		if _, ok := to.Underlying().(*types.Slice); ok {
			return Val{T: to, S: v.S}
		}
	}
	if _, ok := from.Underlying().(*types.Pointer); ok {
		return Val{T: to, S: v.S, P: v.P}
	}
	panic(unsupported(fmt.Sprintf("convert %s -> %s", from, to)))
}

func isByteSlice(t types.Type) bool {
	s, ok := t.Underlying().(*types.Slice)
	if !ok {
		return false
	}
	b, ok := s.Elem().Underlying().(*types.Basic)
	return ok && b.Kind() == types.Uint8
}

func (x *Exec) bytesToString(st *State, sl string) string {
	c := x.c
	r, _ := c.elemRegion(types.Typ[types.Uint8])
	h := c.region(st, r)
	s := c.freshSort("str", "Str")
	arr := c.def("arr", "(Array Int "+c.intSort(8)+")", sx("select", h, sRef(sl)))
	c.assume(eq(sx("gstr_len", s), sLen(sl)))
	c.assumeDef(fmt.Sprintf("(forall ((i Int)) (! (=> (and (<= 0 i) (< i %s)) (= (gstr_at %s i) (select %s (+ %s i)))) :pattern ((gstr_at %s i))))",
		sLen(sl), s, arr, sOff(sl), s))
	return s
}

func (x *Exec) stringToBytes(st *State, s string) string {
	c := x.c
	ref := c.newRef(st)
	r, _ := c.elemRegion(types.Typ[types.Uint8])
	arr := c.freshSort("arr", "(Array Int "+c.intSort(8)+")")
	c.assumeDef(fmt.Sprintf("(forall ((i Int)) (! (=> (and (<= 0 i) (< i (gstr_len %s))) (= (select %s i) (gstr_at %s i))) :pattern ((select %s i))))", s, arr, s, arr))
	c.setRegion(st, r, sx("store", c.region(st, r), ref, arr))
	ln := sx("gstr_len", s)
	return mkSlice(ite(eq(ln, "0"), "0", ref), "0", ln, ln)
}

func (x *Exec) makeIface(v Val, it types.Type) Val {
	c := x.c
	if isIface(v.T) {
		return Val{T: it, S: v.S}
	}
	if b, ok := v.T.Underlying().(*types.Basic); ok && b.Kind() == types.UntypedNil {
		return Val{T: it, S: "I_nil"}
	}
	if c.ifaceKnown(v.T) {
		if v.S == "" {
			panic(unsupported("executor-level value converted to interface"))
		}
		c.sortOf(v.T)
		return Val{T: it, S: sx(ifaceCtorName(v.T), v.S)}
	}
	o := c.freshSort("oth", "Int")
	return Val{T: it, S: sx("I_other", fmt.Sprint(typeID(v.T)), o)}
}

var typeIDs = map[string]int{}

func typeID(t types.Type) int {
	k := typeStr(t)
	if id, ok := typeIDs[k]; ok {
		return id
	}
	typeIDs[k] = len(typeIDs) + 1
	return typeIDs[k]
}

func (x *Exec) isType(v string, t types.Type) string {
	c := x.c
	if isIface(t) {
		// asserting to an interface type: unknown unless nil
		u := c.freshSort("implements", "Bool")
		return and(not(eq(v, "I_nil")), u)
	}
	if c.ifaceKnown(t) {
		return sx("(_ is "+ifaceCtorName(t)+")", v)
	}
	return and(sx("(_ is I_other)", v), eq(sx("oth_tid", v), fmt.Sprint(typeID(t))))
}

func (x *Exec) payload(st *State, v string, t types.Type) string {
	c := x.c
	if isIface(t) {
		return v
	}
	if c.ifaceKnown(t) {
		n := ifaceCtorName(t)
		p := sx("pv_"+n[2:], v)
		return p
	}
	f := c.freshConst("payload", t)
	return f
}

func (x *Exec) typeAssert(st *State, ta *ssa.TypeAssert) Val {
	c := x.c
	v := x.val(st, ta.X)
	is := c.def("is", "Bool", x.isType(v.S, ta.AssertedType))
	pl := x.payload(st, v.S, ta.AssertedType)
	if ta.CommaOk {
		// value is the zero value when the assertion fails
		val := ite(is, pl, c.zero(ta.AssertedType))
		val = c.def("ta", c.sortOf(ta.AssertedType), val)
		c.assume(implies(is, c.wfAt(ta.AssertedType, pl, c.alloc(st))))
		return Val{T: ta.Type(), Tup: []Val{{T: ta.AssertedType, S: val}, {T: types.Typ[types.Bool], S: is}}}
	}
	x.oblige(st, "assert", ta.Pos(), is, "", nil)
	c.assume(implies(is, c.wfAt(ta.AssertedType, pl, c.alloc(st))))
	return Val{T: ta.Type(), S: pl}
}

func (x *Exec) fieldAddr(st *State, fa *ssa.FieldAddr) Val {
	base := x.val(st, fa.X)
	stT := fa.X.Type().Underlying().(*types.Pointer).Elem()
	stt := stT.Underlying().(*types.Struct)
	ft := stt.Field(fa.Field).Type()
	if base.P != nil {
		np := *base.P
		np.Path = append(append([]PathElem{}, base.P.Path...), PathElem{Field: fa.Field, T: ft})
		return Val{T: fa.Type(), P: &np}
	}
	x.nilCheck(st, base.S, fa.Pos())
	x.lockCheck(st, stt, fa)
	return Val{T: fa.Type(), P: &Ptr{Kind: pField, Ref: base.S, SType: stT, Field: fa.Field, BaseT: ft}}
}

// lockCheck: lock discipline (directive "lockdiscipline Cxx files").  The
// fields of a struct that carries a sync.Mutex are only touched while the
// mutex is held.
func (x *Exec) lockCheck(st *State, stt *types.Struct, fa *ssa.FieldAddr) {
	r := x.root()
	if r.fc == nil || len(r.fc.LockProps) == 0 || x.ghost {
		return
	}
	isMutex := func(t types.Type) bool {
		n, ok := t.(*types.Named)
		return ok && n.Obj().Pkg() != nil && n.Obj().Pkg().Path() == "sync" && (n.Obj().Name() == "Mutex" || n.Obj().Name() == "RWMutex")
	}
	has := false
	for i := 0; i < stt.NumFields(); i++ {
		if isMutex(stt.Field(i).Type()) {
			has = true
		}
	}
	if !has || isMutex(stt.Field(fa.Field).Type()) {
		return
	}
	x.oblige(st, "locked", fa.Pos(), x.c.region(st, "$held"), "", r.fc.LockProps)
}

func (x *Exec) boundsCheck(st *State, idx string, ln string, pos token.Pos) {
	x.oblige(st, "index", pos, and(sx("<=", "0", idx), sx("<", idx, ln)), "", nil)
}

func (x *Exec) indexAddr(st *State, ia *ssa.IndexAddr) Val {
	c := x.c
	base := x.val(st, ia.X)
	iv := x.val(st, ia.Index)
	idx := c.toIdx(iv.T, iv.S)
	switch bt := ia.X.Type().Underlying().(type) {
	case *types.Slice:
		x.boundsCheck(st, idx, sLen(base.S), ia.Pos())
		return Val{T: ia.Type(), P: &Ptr{Kind: pElem, Ref: sRef(base.S), Idx: sx("+", sOff(base.S), idx), BaseT: bt.Elem()}}
	case *types.Pointer:
		at := bt.Elem().Underlying().(*types.Array)
		x.boundsCheck(st, idx, fmt.Sprint(at.Len()), ia.Pos())
		if base.P != nil {
			np := *base.P
			np.Path = append(append([]PathElem{}, base.P.Path...), PathElem{Field: -1, Index: idx, T: at.Elem()})
			return Val{T: ia.Type(), P: &np}
		}
		x.nilCheck(st, base.S, ia.Pos())
		return Val{T: ia.Type(), P: &Ptr{Kind: pElem, Ref: base.S, Idx: idx, BaseT: at.Elem()}}
	}
	panic(unsupported("IndexAddr on " + ia.X.Type().String()))
}

func (x *Exec) index(st *State, ix *ssa.Index) Val {
	c := x.c
	base := x.val(st, ix.X)
	iv := x.val(st, ix.Index)
	idx := c.toIdx(iv.T, iv.S)
	switch bt := ix.X.Type().Underlying().(type) {
	case *types.Array:
		x.boundsCheck(st, idx, fmt.Sprint(bt.Len()), ix.Pos())
		return Val{T: ix.Type(), S: sx("select", base.S, idx)}
	case *types.Basic: // string
		x.boundsCheck(st, idx, sx("gstr_len", base.S), ix.Pos())
		return Val{T: ix.Type(), S: sx("gstr_at", base.S, idx)}
	}
	panic(unsupported("Index on " + ix.X.Type().String()))
}

func (x *Exec) lookup(st *State, lk *ssa.Lookup) Val {
	c := x.c
	m := x.val(st, lk.X)
	k := x.val(st, lk.Index)
	if isString(lk.X.Type()) {
		idx := c.toIdx(k.T, k.S)
		x.boundsCheck(st, idx, sx("gstr_len", m.S), lk.Pos())
		return Val{T: lk.Type(), S: sx("gstr_at", m.S, idx)}
	}
	mt := lk.X.Type().Underlying().(*types.Map)
	has, val, _ := c.mapRegions(lk.X.Type())
	ks := k.S
	if isIface(mt.Key()) && !isIface(k.T) {
		ks = x.makeIface(k, mt.Key()).S
	}
	h := sx("select", sx("select", c.region(st, has), m.S), ks)
	h = and(not(eq(m.S, "0")), h)
	hn := c.def("has", "Bool", h)
	v := sx("select", sx("select", c.region(st, val), m.S), ks)
	vv := c.def("mv", c.sortOf(mt.Elem()), ite(hn, v, c.zero(mt.Elem())))
	c.assume(implies(hn, c.wfAt(mt.Elem(), v, c.alloc(st))))
	if vi := x.valueInvFor(mt.Elem()); vi != nil {
		c.assumeOnPath(implies(hn, x.valueInvTerm(st, vi, mt.Elem(), v)))
	}
	if lk.CommaOk {
		return Val{T: lk.Type(), Tup: []Val{{T: mt.Elem(), S: vv}, {T: types.Typ[types.Bool], S: hn}}}
	}
	return Val{T: lk.Type(), S: vv}
}

func (x *Exec) mapUpdate(st *State, mu *ssa.MapUpdate) {
	m := x.val(st, mu.Map)
	k := x.val(st, mu.Key)
	v := x.val(st, mu.Value)
	mt := mu.Map.Type().Underlying().(*types.Map)
	ks, vs := k.S, v.S
	if isIface(mt.Key()) && !isIface(k.T) {
		ks = x.makeIface(k, mt.Key()).S
	}
	if isIface(mt.Elem()) && !isIface(v.T) {
		vs = x.makeIface(v, mt.Elem()).S
	}
	if vs == "" {
		panic(unsupported("map update with executor-level value"))
	}
	x.oblige(st, "nilmap", mu.Pos(), not(eq(m.S, "0")), "", nil)
	x.checkValueInv(st, mt.Elem(), vs, false, mu.Pos())
	x.mapStore(st, mu.Map.Type(), m.S, ks, vs)
}

func (x *Exec) mapStore(st *State, mt types.Type, m, k, v string) {
	c := x.c
	has, val, ln := c.mapRegions(mt)
	hreg, vreg, lreg := c.region(st, has), c.region(st, val), c.region(st, ln)
	was := sx("select", sx("select", hreg, m), k)
	c.setRegion(st, ln, sx("store", lreg, m, sx("+", sx("select", lreg, m), ite(was, "0", "1"))))
	c.setRegion(st, has, sx("store", hreg, m, sx("store", sx("select", hreg, m), k, "true")))
	c.setRegion(st, val, sx("store", vreg, m, sx("store", sx("select", vreg, m), k, v)))
}

func (x *Exec) mapDelete(st *State, mt types.Type, m, k string) {
	c := x.c
	has, _, ln := c.mapRegions(mt)
	hreg, lreg := c.region(st, has), c.region(st, ln)
	was := and(not(eq(m, "0")), sx("select", sx("select", hreg, m), k))
	wn := c.def("was", "Bool", was)
	c.setRegion(st, ln, sx("store", lreg, m, sx("-", sx("select", lreg, m), ite(wn, "1", "0"))))
	c.setRegion(st, has, sx("store", hreg, m, sx("store", sx("select", hreg, m), k, "false")))
}

func (x *Exec) mapLen(st *State, mt types.Type, m string) string {
	c := x.c
	_, _, ln := c.mapRegions(mt)
	l := sx("select", c.region(st, ln), m)
	c.assume(sx("<=", "0", l))
	return ite(eq(m, "0"), "0", l)
}

const maxAlloc = "2199023255552" // 2^41 (the sum of two existing objects); make() larger than any existing Go object (2^40 elements) counts as an absurd allocation

func (x *Exec) makeSlice(st *State, ms *ssa.MakeSlice) Val {
	c := x.c
	lv := x.val(st, ms.Len)
	cv := x.val(st, ms.Cap)
	ln := c.toIdx(lv.T, lv.S)
	cp := c.toIdx(cv.T, cv.S)
	x.oblige(st, "make", ms.Pos(), and(sx("<=", "0", ln), sx("<=", ln, cp), sx("<=", cp, maxAlloc)), "", nil)
	et := ms.Type().Underlying().(*types.Slice).Elem()
	ref := c.newRef(st)
	r, _ := c.elemRegion(et)
	c.setRegion(st, r, sx("store", c.region(st, r), ref, c.zero(types.NewArray(et, 0))))
	return Val{T: ms.Type(), S: c.def("sl", "Slice", mkSlice(ref, "0", ln, cp))}
}

func (x *Exec) sliceOp(st *State, so *ssa.Slice) Val {
	c := x.c
	base := x.val(st, so.X)
	getIdx := func(v ssa.Value) string {
		if v == nil {
			return ""
		}
		iv := x.val(st, v)
		return c.toIdx(iv.T, iv.S)
	}
	lo, hi, mx := getIdx(so.Low), getIdx(so.High), getIdx(so.Max)
	if lo == "" {
		lo = "0"
	}
	switch bt := so.X.Type().Underlying().(type) {
	case *types.Slice:
		if hi == "" {
			hi = sLen(base.S)
		}
		cp := sCap(base.S)
		lim := cp
		if mx != "" {
			lim = mx
		}
		goal := and(sx("<=", "0", lo), sx("<=", lo, hi), sx("<=", hi, lim))
		if mx != "" {
			goal = and(goal, sx("<=", mx, cp))
		}
		x.oblige(st, "slice", so.Pos(), goal, "", nil)
		return Val{T: so.Type(), S: c.def("sl", "Slice", mkSlice(sRef(base.S), iadd(sOff(base.S), lo), isub(hi, lo), isub(lim, lo)))}
	case *types.Basic: // string
		if hi == "" {
			hi = sx("gstr_len", base.S)
		}
		x.oblige(st, "slice", so.Pos(), and(sx("<=", "0", lo), sx("<=", lo, hi), sx("<=", hi, sx("gstr_len", base.S))), "", nil)
		r := c.freshSort("substr", "Str")
		c.assume(eq(sx("gstr_len", r), sx("-", hi, lo)))
		c.assumeDef(fmt.Sprintf("(forall ((i Int)) (! (=> (and (<= 0 i) (< i (- %s %s))) (= (gstr_at %s i) (gstr_at %s (+ %s i)))) :pattern ((gstr_at %s i))))", hi, lo, r, base.S, lo, r))
		return Val{T: so.Type(), S: r}
	case *types.Pointer: // pointer to array
		at := bt.Elem().Underlying().(*types.Array)
		n := fmt.Sprint(at.Len())
		if hi == "" {
			hi = n
		}
		lim := n
		if mx != "" {
			lim = mx
		}
		x.oblige(st, "slice", so.Pos(), and(sx("<=", "0", lo), sx("<=", lo, hi), sx("<=", hi, lim), sx("<=", lim, n)), "", nil)
		if base.P != nil {
			panic(unsupported("slicing an array held in a local cell"))
		}
		return Val{T: so.Type(), S: c.def("sl", "Slice", mkSlice(base.S, lo, isub(hi, lo), isub(lim, lo)))}
	}
	panic(unsupported("Slice on " + so.X.Type().String()))
}

// ---------------------------------------------------------------------
// range over maps and strings

type rangeState struct {
	kind string
	x    Val
	t    types.Type
}

var rangeInfos = map[*ssa.Range]*rangeState{}

func (x *Exec) rangeInit(st *State, r *ssa.Range) Val {
	v := x.val(st, r.X)
	if isString(r.X.Type()) {
		// the iterator state is a hidden position cell
		st.cells[x.strPosKey(r)] = Val{T: types.Typ[types.Int], S: "0"}
	}
	return Val{T: r.Type(), S: v.S}
}

func (x *Exec) strPosKey(r *ssa.Range) string {
	return fmt.Sprintf("L:%s:strpos_%s", x.prefix, r.Name())
}

// nextString: one step of `for i, r := range s`.  An ASCII byte is its own
// rune and has width one; at any other position the rune is some value >= 128
// (or utf8.RuneError) and the width is 1..4, staying inside the string.
func (x *Exec) nextString(st *State, n *ssa.Next) Val {
	c := x.c
	rng := n.Iter.(*ssa.Range)
	s := x.val(st, rng.X)
	key := x.strPosKey(rng)
	pv, okc := st.cells[key]
	if !okc || pv.S == "" {
		panic(unsupported("range over string: iterator position lost"))
	}
	intT := types.Typ[types.Int]
	ln := sx("gstr_len", s.S)
	more := c.def("more", "Bool", sx("<", pv.S, ln))
	b := sx("gstr_at", s.S, pv.S)
	bi := c.convert(types.Typ[types.Uint8], types.Typ[types.Int32], b)
	r := c.freshConst("rune", types.Typ[types.Int32])
	w := c.freshConst("width", intT)
	c.assume(and(sx(">=", c.toIdx(types.Typ[types.Int32], r), "128"), sx("<=", c.toIdx(types.Typ[types.Int32], r), "1114111")))
	c.assume(and(sx("<=", "1", w), sx("<=", w, "4")))
	ascii := sx("<", c.toIdx(types.Typ[types.Uint8], b), "128")
	c.assume(implies(and(more, not(ascii)), sx("<=", sx("+", pv.S, w), ln)))
	rv := c.def("rv", c.sortOf(types.Typ[types.Int32]), ite(ascii, bi, r))
	np := c.def("np", "Int", sx("+", pv.S, ite(ascii, "1", w)))
	st.cells[key] = Val{T: intT, S: ite(more, np, pv.S)}
	c.note("range over string: ASCII bytes yield themselves with width 1; other positions yield some rune >= 128 with width 1..4 (UTF-8 decoding not modelled)")
	tup := n.Type().(*types.Tuple)
	return Val{T: n.Type(), Tup: []Val{{T: types.Typ[types.Bool], S: more}, {T: tup.At(1).Type(), S: c.fromIdx(intT, pv.S)}, {T: tup.At(2).Type(), S: rv}}}
}

func (x *Exec) next(st *State, n *ssa.Next) Val {
	c := x.c
	if n.IsString {
		return x.nextString(st, n)
	}
	rng := n.Iter.(*ssa.Range)
	m := x.val(st, rng.X)
	mt := rng.X.Type().Underlying().(*types.Map)
	has, val, _ := c.mapRegions(rng.X.Type())
	ok := c.freshSort("more", "Bool")
	k := c.freshConst("key", mt.Key())
	c.assume(c.wfAt(mt.Key(), k, c.alloc(st)))
	present := and(not(eq(m.S, "0")), sx("select", sx("select", c.region(st, has), m.S), k))
	c.assume(implies(ok, present))
	v := sx("select", sx("select", c.region(st, val), m.S), k)
	vv := c.def("rv", c.sortOf(mt.Elem()), v)
	c.assume(implies(ok, c.wfAt(mt.Elem(), vv, c.alloc(st))))
	if vi := x.valueInvFor(mt.Elem()); vi != nil {
		c.assumeOnPath(implies(ok, x.valueInvTerm(st, vi, mt.Elem(), vv)))
	}
	tup := n.Type().(*types.Tuple)
	return Val{T: n.Type(), Tup: []Val{{T: types.Typ[types.Bool], S: ok}, {T: tup.At(1).Type(), S: k}, {T: tup.At(2).Type(), S: vv}}}
}

// ---------------------------------------------------------------------
// defers (only closures / static calls; executed at RunDefers in reverse order)

func (x *Exec) doDefer(st *State, d *ssa.Defer) {
	key := fmt.Sprintf("L:%s:defer%d", x.prefix, len(x.defers))
	for _, dr := range x.defers {
		if dr.call == d {
			key = dr.key
		}
	}
	found := false
	for _, dr := range x.defers {
		if dr.call == d {
			found = true
		}
	}
	if !found {
		x.defers = append(x.defers, deferRec{key: key, call: d})
	}
	// capture argument values now
	var args []Val
	for _, a := range d.Call.Args {
		args = append(args, x.val(st, a))
	}
	deferArgs[d] = args
	if d.Call.Value != nil {
		deferVal[d] = x.val(st, d.Call.Value)
	}
	st.cells[key] = Val{T: types.Typ[types.Bool], S: "true"}
}

var deferArgs = map[*ssa.Defer][]Val{}
var deferVal = map[*ssa.Defer]Val{}

func (x *Exec) runDefers(st *State) {
	for i := len(x.defers) - 1; i >= 0; i-- {
		dr := x.defers[i]
		act, ok := st.cells[dr.key]
		if !ok || act.S == "false" {
			continue
		}
		// run the deferred call under guard ∧ active, merge with the state where it is inactive
		on := st.clone()
		on.guard = x.c.def("g", "Bool", and(st.guard, act.S))
		x.callCommon(on, &dr.call.Call, nil, dr.call.Pos(), deferArgs[dr.call], deferVal[dr.call], true)
		if act.S == "true" {
			*st = *on
			continue
		}
		off := st.clone()
		off.guard = x.c.def("g", "Bool", and(st.guard, not(act.S)))
		m := x.c.merge([]edgeState{{from: 0, st: on}, {from: 1, st: off}})
		m.guard = st.guard
		*st = *m
	}
}

func newBigFromConst(v constant.Value) string { return v.ExactString() }
