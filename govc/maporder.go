package main

// Order independence of loops that visit the entries of a map (C17).
//
// For a loop `for k, v := range m` (or a loop over the not yet sorted result
// of maps.Keys) in a file named by a "//@ maporder Cxx files" directive the
// obligation
//
//	func#maporder[loopN]
//
// says: for any two distinct entries e1, e2, running the loop body for e1 and
// then e2 from an arbitrary state that satisfies the loop invariants ends in
// the same state as running it for e2 and then e1 -- every heap region and
// every local declared outside the loop is equal -- and neither iteration
// leaves the loop.  Adjacent transpositions generate all permutations, so the
// state after the loop does not depend on the order Go picks.
//
// The body is executed path by path by the ordinary executor; callees are
// replaced by their contracts as everywhere else, so a body that calls a
// function with effects gives two unrelated havocs and the obligation is not
// provable (conservative).  Bodies that contain loops are not supported and
// yield an unprovable obligation as well.

import (
	"fmt"
	"go/ast"
	"go/types"
	"path/filepath"
	"sort"
	"strings"

	"golang.org/x/tools/go/ssa"
)

type mapOrderSpec struct {
	pkg, prop, file, dir string
}

// applyMapOrder marks the functions of the named files.
func (p *Program) applyMapOrder() {
	for _, mo := range p.mapOrders {
		target := filepath.Join(mo.dir, mo.file)
		for _, k := range sortedKeys(p.byName) {
			fn := p.byName[k]
			if fn.Syntax() == nil || p.isGhostFn(fn) {
				continue
			}
			if p.fset.Position(fn.Syntax().Pos()).Filename != target {
				continue
			}
			if deferOnly(fn) || confinedClosure(fn) {
				continue
			}
			if !hasMapOrderSite(fn) {
				continue
			}
			fc := p.contracts[k]
			if fc == nil {
				fc = &FuncContract{Key: k, File: target, Loops: map[int]*LoopContract{}, Skip: map[string]bool{}, Props: map[string]bool{}}
				p.contracts[k] = fc
			}
			fc.MapOrder = append(fc.MapOrder, mo.prop)
			fc.Props[mo.prop] = true
		}
	}
}

func hasMapOrderSite(fn *ssa.Function) bool {
	for _, b := range fn.Blocks {
		for _, in := range b.Instrs {
			switch in := in.(type) {
			case *ssa.Range:
				if _, ok := in.X.Type().Underlying().(*types.Map); ok {
					return true
				}
			case *ssa.Call:
				if isMapsKeys(&in.Call) {
					return true
				}
			}
		}
	}
	return false
}

func isMapsKeys(cc *ssa.CallCommon) bool {
	f, ok := cc.Value.(*ssa.Function)
	if !ok || f.Pkg == nil && f.Origin() == nil {
		return false
	}
	o := f
	if f.Origin() != nil {
		o = f.Origin()
	}
	if o.Pkg == nil {
		return false
	}
	path := o.Pkg.Pkg.Path()
	return (path == "golang.org/x/exp/maps" || path == "maps") && o.Name() == "Keys"
}

func sortCallOn(cc *ssa.CallCommon) (ssa.Value, bool) {
	f, ok := cc.Value.(*ssa.Function)
	if !ok {
		return nil, false
	}
	o := f
	if f.Origin() != nil {
		o = f.Origin()
	}
	if o.Pkg == nil || len(cc.Args) == 0 {
		return nil, false
	}
	path := o.Pkg.Pkg.Path()
	arg := cc.Args[0]
	if mi, ok := arg.(*ssa.MakeInterface); ok {
		arg = mi.X
	}
	switch {
	case (path == "golang.org/x/exp/slices" || path == "slices") && o.Name() == "Sort":
		return arg, true
	case path == "sort" && (o.Name() == "Strings" || o.Name() == "Slice" || o.Name() == "SliceStable"):
		return arg, true
	}
	return nil, false
}

// ---------------------------------------------------------------------

// unsortedKeyVars: local variables that hold the result of maps.Keys, with
// the sort calls applied to them.
type keysVar struct {
	alloc *ssa.Alloc
	call  *ssa.Call
	sorts []*ssa.Call
}

func findKeysVars(fn *ssa.Function) []*keysVar {
	var out []*keysVar
	for _, b := range fn.Blocks {
		for _, in := range b.Instrs {
			call, ok := in.(*ssa.Call)
			if !ok || !isMapsKeys(&call.Call) || call.Referrers() == nil {
				continue
			}
			kv := &keysVar{call: call}
			for _, r := range *call.Referrers() {
				if st, ok := r.(*ssa.Store); ok && st.Val == ssa.Value(call) {
					if a, ok := st.Addr.(*ssa.Alloc); ok {
						kv.alloc = a
					}
				}
			}
			out = append(out, kv)
		}
	}
	for _, kv := range out {
		if kv.alloc == nil {
			continue
		}
		for _, b := range fn.Blocks {
			for _, in := range b.Instrs {
				call, ok := in.(*ssa.Call)
				if !ok {
					continue
				}
				if arg, ok := sortCallOn(&call.Call); ok {
					if u, ok := arg.(*ssa.UnOp); ok && u.X == ssa.Value(kv.alloc) {
						kv.sorts = append(kv.sorts, call)
					}
				}
			}
		}
	}
	return out
}

func instrBefore(a, b ssa.Instruction) bool {
	if a.Block() == b.Block() {
		for _, in := range a.Block().Instrs {
			if in == a {
				return true
			}
			if in == b {
				return false
			}
		}
	}
	return a.Block().Dominates(b.Block())
}

// keysUseObligations: every use of an unsorted maps.Keys result must be a
// length query, an append that is stored back, a sort, or a range loop (which
// then gets a commutation obligation); after a dominating sort everything
// is allowed.
func (x *Exec) keysUseObligations(st *State) {
	if x.fc == nil || len(x.fc.MapOrder) == 0 || x.inline {
		return
	}
	for i, kv := range findKeysVars(x.fn) {
		tag := fmt.Sprintf("keys%d", i+1)
		bad := ""
		if kv.alloc == nil {
			bad = "result of maps.Keys is not kept in a local variable"
		} else if kv.alloc.Referrers() != nil {
			for _, r := range *kv.alloc.Referrers() {
				u, ok := r.(*ssa.UnOp)
				if !ok {
					continue // stores, debug refs
				}
				sorted := false
				for _, sc := range kv.sorts {
					if instrBefore(sc, u) && ssa.Instruction(sc) != ssa.Instruction(u) {
						// the load feeding the sort call itself is not "after" it
						if arg, _ := sortCallOn(&sc.Call); arg != ssa.Value(u) {
							sorted = true
						}
					}
				}
				if sorted || u.Referrers() == nil {
					continue
				}
				for _, ur := range *u.Referrers() {
					if !x.keysUseOK(kv, u, ur) {
						bad = fmt.Sprintf("unsorted key list used by %T at %s", ur, x.p.fset.Position(ur.Pos()))
					}
				}
			}
		}
		goal := "true"
		if bad != "" {
			goal = "false"
			x.c.note("maps.Keys: " + bad)
		}
		x.oblige(st, "keys-sorted", kv.call.Pos(), goal, tag, x.fc.MapOrder)
	}
}

func (x *Exec) keysUseOK(kv *keysVar, load *ssa.UnOp, use ssa.Instruction) bool {
	switch u := use.(type) {
	case *ssa.DebugRef:
		return true
	case *ssa.MakeInterface:
		// only as the argument of a sort call
		if u.Referrers() == nil {
			return false
		}
		for _, r := range *u.Referrers() {
			call, ok := r.(*ssa.Call)
			if !ok {
				if _, ok := r.(*ssa.DebugRef); ok {
					continue
				}
				return false
			}
			if arg, ok := sortCallOn(&call.Call); !ok || arg != ssa.Value(load) {
				return false
			}
		}
		return true
	case *ssa.Call:
		if arg, ok := sortCallOn(&u.Call); ok && arg == ssa.Value(load) {
			return true
		}
		if b, ok := u.Call.Value.(*ssa.Builtin); ok {
			switch b.Name() {
			case "len", "cap":
				return true
			case "append":
				// append(keys, constants...) stored back into the variable
				if u.Call.Args[0] != ssa.Value(load) || u.Referrers() == nil {
					return false
				}
				for _, r := range *u.Referrers() {
					st, ok := r.(*ssa.Store)
					if ok && st.Addr == ssa.Value(kv.alloc) {
						continue
					}
					if _, ok := r.(*ssa.DebugRef); ok {
						continue
					}
					return false
				}
				return true
			}
		}
		return false
	case *ssa.IndexAddr:
		// element access inside a range loop over the variable: the loop gets a commutation obligation
		for _, li := range x.loopList {
			if li.body[u.Block()] && x.rangesOverKeys(li) == kv.alloc {
				return true
			}
		}
		return false
	}
	return false
}

// rangesOverKeys: the maps.Keys variable a range-over-slice loop visits (nil if none).
func (x *Exec) rangesOverKeys(li *loopInfo) *ssa.Alloc {
	rs, ok := li.stmt.(*ast.RangeStmt)
	if !ok || li.header.Comment != "rangeindex.loop" {
		return nil
	}
	id, ok := rs.X.(*ast.Ident)
	if !ok {
		return nil
	}
	for _, kv := range findKeysVars(x.fn) {
		if kv.alloc == nil || kv.alloc.Comment != id.Name {
			continue
		}
		sorted := false
		for _, sc := range kv.sorts {
			if sc.Block().Dominates(li.header) {
				sorted = true
			}
		}
		if !sorted {
			return kv.alloc
		}
	}
	return nil
}

// ---------------------------------------------------------------------

// mapOrderCheck is called from enterLoop with the state at the loop head
// (after havoc, invariants assumed).
func (x *Exec) mapOrderCheck(li *loopInfo, head *State) {
	if x.fc == nil || len(x.fc.MapOrder) == 0 || x.inline || x.muted {
		return
	}
	var next *ssa.Next
	for _, in := range li.header.Instrs {
		if n, ok := in.(*ssa.Next); ok && !n.IsString {
			if _, ok := n.Iter.(*ssa.Range).X.Type().Underlying().(*types.Map); ok {
				next = n
			}
		}
	}
	var keysAlloc *ssa.Alloc
	if next == nil {
		keysAlloc = x.rangesOverKeys(li)
		if keysAlloc == nil {
			return
		}
	}
	pos := x.loopPos(li)
	tag := fmt.Sprintf("loop%d", li.ord)
	goal, why := x.commuteGoal(li, head, next, keysAlloc)
	if why != "" {
		x.c.note(fmt.Sprintf("maporder %s %s: %s", x.key, tag, why))
	}
	n0 := len(x.v.obls)
	x.oblige(head, "maporder", pos, goal, tag, x.fc.MapOrder)
	for _, o := range x.v.obls[n0:] {
		o.scope = x.curScope
	}
}

var scopeCounter int

type iterBind func(st *State) (start *ssa.BasicBlock)

func (x *Exec) commuteGoal(li *loopInfo, head *State, next *ssa.Next, keysAlloc *ssa.Alloc) (goal string, why string) {
	c := x.c
	// nested loops in the body are not supported
	for _, other := range x.loopList {
		if other != li && li.body[other.header] {
			return "false", "the loop body contains a loop (not supported by the commutation check)"
		}
	}
	savedBlock := c.curBlock
	savedVals := x.vals
	x.vals = map[ssa.Value]Val{}
	for k, v := range savedVals {
		x.vals[k] = v
	}
	x.muted = true
	scopeCounter++
	c.curBlock = scopeBase - scopeCounter
	x.curScope = c.curBlock
	defer func() {
		x.muted = false
		c.curBlock = savedBlock
		x.vals = savedVals
	}()

	var bind1, bind2 iterBind
	skipCells := map[string]bool{}
	if next != nil {
		rng := next.Iter.(*ssa.Range)
		m := x.val(head, rng.X)
		mt := rng.X.Type().Underlying().(*types.Map)
		has, val, _ := c.mapRegions(rng.X.Type())
		// the body must not change the map it ranges over
		lm := x.loopModSet(li)
		if lm.all || lm.regions[has] || lm.regions[val] {
			// only an obstacle if the ranged map itself may be written: compared below through the regions
		}
		mk := func(name string) (string, string) {
			k := c.freshConst(name, mt.Key())
			c.assume(c.wfAt(mt.Key(), k, c.alloc(head)))
			c.assume(and(not(eq(m.S, "0")), sx("select", sx("select", c.region(head, has), m.S), k)))
			v := c.def("rv", c.sortOf(mt.Elem()), sx("select", sx("select", c.region(head, val), m.S), k))
			c.assume(c.wfAt(mt.Elem(), v, c.alloc(head)))
			if vi := x.valueInvFor(mt.Elem()); vi != nil {
				c.assume(x.valueInvTerm(head, vi, mt.Elem(), v))
			}
			return k, v
		}
		k1, v1 := mk("ord_k1")
		k2, v2 := mk("ord_k2")
		c.assume(not(eq(k1, k2)))
		// a map with two distinct keys has at least two entries
		_, _, ln := c.mapRegions(rng.X.Type())
		c.assume(sx(">=", sx("select", c.region(head, ln), m.S), "2"))
		tup := next.Type().(*types.Tuple)
		mkBind := func(k, v string) iterBind {
			return func(st *State) *ssa.BasicBlock {
				x.vals[next] = Val{T: next.Type(), Tup: []Val{{T: types.Typ[types.Bool], S: "true"}, {T: tup.At(1).Type(), S: k}, {T: tup.At(2).Type(), S: v}}}
				return li.header.Succs[0]
			}
		}
		bind1, bind2 = mkBind(k1, v1), mkBind(k2, v2)
	} else {
		// range over the unsorted key list: iteration i1 then i2 against i2 then i1
		var idxAlloc *ssa.Alloc
		for _, in := range li.header.Instrs {
			if u, ok := in.(*ssa.UnOp); ok {
				if a, ok := u.X.(*ssa.Alloc); ok && a.Comment == "rangeindex" {
					idxAlloc = a
				}
			}
		}
		if idxAlloc == nil {
			return "false", "range index of the loop not found"
		}
		key := x.cellKey(idxAlloc)
		skipCells[key] = true
		sl, ok := head.cells[x.cellKey(keysAlloc)]
		if !ok || sl.S == "" {
			// a variable shared with a closure lives in the heap
			pv, ok2 := x.vals[keysAlloc]
			if !ok2 {
				return "false", "key list variable not live at the loop head"
			}
			if p := x.ptrOf(pv); p != nil {
				t, _ := c.loadPtr(head, p)
				sl = Val{S: t}
			} else {
				return "false", "key list variable not live at the loop head"
			}
		}
		intT := types.Typ[types.Int]
		mk := func(name string) string {
			i := c.freshConst(name, intT)
			c.assume(and(sx("<=", "0", i), sx("<", i, sLen(sl.S))))
			return i
		}
		i1, i2 := mk("ord_i1"), mk("ord_i2")
		c.assume(not(eq(i1, i2)))
		// the keys of a map are pairwise distinct
		er, _ := c.elemRegion(keysAlloc.Type().(*types.Pointer).Elem().Underlying().(*types.Slice).Elem())
		at := func(i string) string {
			return sx("select", sx("select", c.region(head, er), sRef(sl.S)), sx("+", sOff(sl.S), i))
		}
		c.assume(not(eq(at(i1), at(i2))))
		mkBind := func(i string) iterBind {
			return func(st *State) *ssa.BasicBlock {
				st.cells[key] = Val{T: intT, S: sx("-", i, "1")}
				return li.header
			}
		}
		bind1, bind2 = mkBind(i1), mkBind(i2)
	}

	var exits []string
	failed := ""
	runIter := func(st0 *State, bind iterBind) *State {
		st := st0.clone()
		start := bind(st)
		var ends []edgeState
		var walk func(b *ssa.BasicBlock, from int, s *State, depth int)
		walk = func(b *ssa.BasicBlock, from int, s *State, depth int) {
			if failed != "" {
				return
			}
			if depth > 200 {
				failed = "path too long"
				return
			}
			x.bindPhis(b, []edgeState{{from: from, st: s}}, s)
			x.execBlockWith(b, s, func(f, to *ssa.BasicBlock, s2 *State) {
				if s2.guard == "false" {
					return
				}
				switch {
				case to == li.header:
					ends = append(ends, edgeState{from: f.Index, st: s2})
				case !li.body[to]:
					if f == li.header {
						return // the loop condition (more entries?) is not part of an iteration
					}
					exits = append(exits, s2.guard)
				default:
					walk(to, f.Index, s2, depth+1)
				}
			})
			if x.mutedExit != "" {
				exits = append(exits, x.mutedExit)
				x.mutedExit = ""
			}
		}
		walk(start, -1, st, 0)
		if failed != "" || len(ends) == 0 {
			if failed == "" {
				failed = "no path through the loop body returns to the loop head"
			}
			return st0
		}
		return c.merge(ends)
	}
	s1 := runIter(head, bind1)
	s12 := runIter(s1, bind2)
	s2 := runIter(head, bind2)
	s21 := runIter(s2, bind1)
	if failed != "" {
		return "false", failed
	}
	// compare
	var eqs []string
	regs := map[string]bool{}
	for k := range s12.cells {
		regs[k] = true
	}
	for k := range s21.cells {
		regs[k] = true
	}
	for r := range c.regions {
		regs[r] = true // a call with unknown effects leaves no region cell behind
	}
	var names []string
	for k := range regs {
		names = append(names, k)
	}
	sort.Strings(names)
	var rs *ast.RangeStmt
	if r, ok := li.stmt.(*ast.RangeStmt); ok {
		rs = r
	}
	for _, k := range names {
		if k == "$alloc" || skipCells[k] {
			continue
		}
		if isRegionKey(k) {
			a, b := c.region(s12, k), c.region(s21, k)
			if a != b {
				eqs = append(eqs, eq(a, b))
			}
			continue
		}
		// locals: only those that exist outside the loop
		hv, outside := head.cells[k]
		if !outside {
			continue
		}
		if strings.Contains(k, ":defer") {
			continue
		}
		if rs != nil && x.isRangeVarCell(k, rs) {
			continue
		}
		a, b := s12.cells[k], s21.cells[k]
		if a.S == "" || b.S == "" {
			if hv.S == "" && a.P == b.P && a.Fn == b.Fn {
				continue
			}
			return "false", "executor-level local " + k + " differs"
		}
		if a.S != b.S {
			eqs = append(eqs, eq(a.S, b.S))
		}
	}
	goal = and(eqs...)
	if len(exits) > 0 {
		goal = and(goal, not(or(exits...)))
	}
	// both orders must arrive (same guard as the head)
	goal = and(goal, implies(head.guard, and(s12.guard, s21.guard)))
	return goal, ""
}

func (x *Exec) isRangeVarCell(cell string, rs *ast.RangeStmt) bool {
	for _, a := range x.allocByPos {
		if x.cellKey(a) != cell {
			continue
		}
		for _, e := range []ast.Expr{rs.Key, rs.Value} {
			if id, ok := e.(*ast.Ident); ok && id.Name == a.Comment && a.Pos() >= rs.Pos() && a.Pos() <= rs.End() {
				return true
			}
		}
	}
	return false
}

// ---------------------------------------------------------------------
// Deterministic results of read-only callees.
//
// A callee that writes no heap region and returns only plain values (numbers,
// booleans, structs of those) returns a function of its arguments and of the
// heap regions it may read, provided nothing in it depends on map iteration
// order, time or randomness.  Modelling the result as such a function lets
// two calls with equal arguments in equal heaps agree (needed to commute loop
// iterations).

func plainValueType(t types.Type) bool {
	switch u := t.Underlying().(type) {
	case *types.Basic:
		return u.Info()&(types.IsNumeric|types.IsBoolean|types.IsString) != 0
	case *types.Struct:
		for i := 0; i < u.NumFields(); i++ {
			if !plainValueType(u.Field(i).Type()) {
				return false
			}
		}
		return true
	case *types.Array:
		return plainValueType(u.Elem())
	}
	return false
}

var orderDepCache = map[*ssa.Function]int{}

// readSet collects the regions fn may read; ok is false when fn (or a callee)
// may depend on something that is not a function of its inputs.
func (x *Exec) readSet(fn *ssa.Function, seen map[*ssa.Function]bool, out map[string]bool) bool {
	if seen[fn] {
		return true
	}
	seen[fn] = true
	c := x.c
	if len(fn.Blocks) == 0 {
		return false
	}
	for _, b := range fn.Blocks {
		for _, in := range b.Instrs {
			switch in := in.(type) {
			case *ssa.Range:
				if _, ok := in.X.Type().Underlying().(*types.Map); ok {
					return false
				}
			case *ssa.Go, *ssa.Select, *ssa.Send:
				return false
			case *ssa.IndexAddr:
				if sl, ok := in.X.Type().Underlying().(*types.Slice); ok {
					r, _ := c.elemRegion(sl.Elem())
					out[r] = true
				}
			case *ssa.Index:
				if sl, ok := in.X.Type().Underlying().(*types.Slice); ok {
					r, _ := c.elemRegion(sl.Elem())
					out[r] = true
				}
			case *ssa.FieldAddr:
				if pt, ok := in.X.Type().Underlying().(*types.Pointer); ok {
					if _, isAlloc := in.X.(*ssa.Alloc); !isAlloc {
						r, _ := c.fieldRegion(pt.Elem(), in.Field)
						out[r] = true
					}
				}
			case *ssa.UnOp:
				if _, own := in.X.(*ssa.Alloc); own {
					continue // the callee's own (fresh) variable
				}
				if pt, ok := in.X.Type().Underlying().(*types.Pointer); ok {
					switch et := pt.Elem().Underlying().(type) {
					case *types.Struct:
						for i := 0; i < et.NumFields(); i++ {
							r, _ := c.fieldRegion(pt.Elem(), i)
							out[r] = true
						}
					case *types.Array:
						r, _ := c.elemRegion(et.Elem())
						out[r] = true
					default:
						if a, isAlloc := in.X.(*ssa.Alloc); !isAlloc || a.Heap {
							r, _ := c.cellRegion(pt.Elem())
							out[r] = true
						}
					}
				}
			case *ssa.Lookup:
				if _, ok := in.X.Type().Underlying().(*types.Map); ok {
					h, v, l := c.mapRegions(in.X.Type())
					out[h], out[v], out[l] = true, true, true
				}
			case *ssa.Call:
				if in.Call.IsInvoke() {
					return false
				}
				if _, ok := in.Call.Value.(*ssa.Builtin); ok {
					continue
				}
				callee := resolveCallee(in.Call.Value)
				if callee == nil {
					return false
				}
				if isMapsKeys(&in.Call) {
					return false
				}
				if callee.Pkg != nil {
					switch callee.Pkg.Pkg.Path() {
					case "time", "math/rand", "os", "crypto/rand", "runtime":
						return false
					case "math", "strings", "strconv", "unicode", "unicode/utf8", "bytes", "sort", "errors", "fmt":
						continue
					}
				}
				if !x.readSet(callee, seen, out) {
					return false
				}
			}
		}
	}
	return true
}

// detResults: results of a read-only, plain-valued, order-independent callee
// as uninterpreted functions of the arguments and the regions read.
func (x *Exec) detResults(st *State, fn *ssa.Function, args []Val, resT *types.Tuple, ms *ModSet) (Val, bool) {
	c := x.c
	if ms == nil || ms.All || resT.Len() == 0 {
		return Val{}, false
	}
	for r := range ms.Regions {
		if r != "$alloc" {
			return Val{}, false
		}
	}
	for i := 0; i < resT.Len(); i++ {
		if !plainValueType(resT.At(i).Type()) {
			return Val{}, false
		}
	}
	for _, a := range args {
		if a.S == "" {
			return Val{}, false
		}
	}
	reads := map[string]bool{}
	if !x.readSet(fn, map[*ssa.Function]bool{}, reads) {
		return Val{}, false
	}
	var rnames []string
	for r := range reads {
		if _, ok := c.regions[r]; ok {
			rnames = append(rnames, r)
		}
	}
	sort.Strings(rnames)
	var sorts, terms []string
	for _, r := range rnames {
		sorts = append(sorts, c.regions[r])
		terms = append(terms, c.region(st, r))
	}
	for _, a := range args {
		sorts = append(sorts, c.sortOf(a.T))
		terms = append(terms, a.S)
	}
	var out []Val
	for i := 0; i < resT.Len(); i++ {
		t := resT.At(i).Type()
		f := fmt.Sprintf("det_%s_%d", san(x.p.funcKey(fn)), i)
		c.declareFun(f, sorts, c.sortOf(t))
		term := f
		if len(terms) > 0 {
			term = sx(f, terms...)
		}
		v := c.def("det", c.sortOf(t), term)
		c.assume(c.wfAt(t, v, c.alloc(st)))
		out = append(out, Val{T: t, S: v})
	}
	c.note("read-only callee " + x.p.funcKey(fn) + ": results are a function of the arguments and the heap regions it reads")
	return pack(resT, out), true
}

// applyLockSpecs marks every function of the named files for the lock
// discipline obligations.
func (p *Program) applyLockSpecs() {
	for _, ls := range p.lockSpecs {
		target := filepath.Join(ls.dir, ls.file)
		for _, k := range sortedKeys(p.byName) {
			fn := p.byName[k]
			if fn.Syntax() == nil || p.isGhostFn(fn) {
				continue
			}
			if p.fset.Position(fn.Syntax().Pos()).Filename != target {
				continue
			}
			if deferOnly(fn) || confinedClosure(fn) {
				continue
			}
			touches := false
			carries := func(t types.Type) bool {
				pt, ok := t.Underlying().(*types.Pointer)
				if !ok {
					return false
				}
				st, ok := pt.Elem().Underlying().(*types.Struct)
				if !ok {
					return false
				}
				for i := 0; i < st.NumFields(); i++ {
					if n, ok := st.Field(i).Type().(*types.Named); ok && n.Obj().Pkg() != nil && n.Obj().Pkg().Path() == "sync" {
						return true
					}
				}
				return false
			}
			for _, pr := range fn.Params {
				if carries(pr.Type()) {
					touches = true
				}
			}
			for _, b := range fn.Blocks {
				for _, in := range b.Instrs {
					if fa, ok := in.(*ssa.FieldAddr); ok {
						if st, ok := fa.X.Type().Underlying().(*types.Pointer).Elem().Underlying().(*types.Struct); ok {
							for i := 0; i < st.NumFields(); i++ {
								if n, ok := st.Field(i).Type().(*types.Named); ok && n.Obj().Pkg() != nil && n.Obj().Pkg().Path() == "sync" {
									touches = true
								}
							}
						}
					}
				}
			}
			if !touches {
				continue
			}
			fc := p.contracts[k]
			if fc == nil {
				fc = &FuncContract{Key: k, File: target, Loops: map[int]*LoopContract{}, Skip: map[string]bool{}, Props: map[string]bool{}}
				p.contracts[k] = fc
			}
			fc.LockProps = append(fc.LockProps, ls.prop)
			fc.Props[ls.prop] = true
		}
	}
}
