package main

// Translation context: Go types -> SMT sorts, heap regions, well-formedness
// facts, zero values, string constants.  One Ctx per verified function
// (= one family of queries sharing a preamble).

import (
	"regexp"
	"fmt"
	"go/constant"
	"go/types"
	"math/big"
	"sort"
	"strings"
	"sync"
)

type Mode struct {
	BV bool // integers are bit-vectors (else Int with explicit wrap-around)
	FP bool // float64 is IEEE FloatingPoint (else Real: stated assumption)
}

func (m Mode) String() string {
	s := "lia"
	if m.BV {
		s = "bv"
	}
	if m.FP {
		s += "+fp"
	} else {
		s += "+real"
	}
	return s
}

// Val is a symbolic Go value.
type Val struct {
	T     types.Type
	S     string // SMT term (empty for executor-level values)
	P     *Ptr   // executor-level pointer (address of a cell / field / element)
	Tup   []Val  // tuple value
	Fn    *FnRef // statically known function value
	Undef bool
}

type FnRef struct {
	Name  string
	Fn    interface{} // *ssa.Function
	Binds []Val
}

const (
	pCell  = iota // local (non-escaping) Alloc cell
	pField        // field of a heap struct object
	pElem         // element of a slice/array backing store
	pHeap         // heap cell of a non-struct, non-array value
)

type PathElem struct {
	Field int    // >= 0: struct field index
	Index string // SMT index term when Field < 0
	T     types.Type
}

type Ptr struct {
	Kind  int
	Cell  string      // pCell: cell key
	Ref   string      // pField / pElem / pHeap: object reference term
	SType types.Type  // pField: the struct type (named or not)
	Field int         // pField: field index
	Idx   string      // pElem: absolute index into the backing array
	BaseT types.Type  // type of the value stored at the base location
	Path  []PathElem  // projection into the base value
	G     interface{} // *ssa.Global for package-level variables
}

type Ctx struct {
	prog   *Program
	mode   Mode
	decls  []string
	assert []string
	nfresh int

	structs   map[string]*structInfo // struct datatypes used
	structOrd []string
	regions   map[string]string // region name -> sort
	strConsts map[string]string // literal -> const name
	strOrder  []string
	funDecls  map[string]bool
	notes     map[string]bool // assumptions used (reported in evidence)
	inQuant   int             // > 0 while translating the body of a quantifier
	preOnce   sync.Once
	preText   string
	symMu     sync.Mutex
	outerGuard string // path condition of the state a specification call is evaluated in
	curGuard  string // path condition of the instruction being executed (guards assume)
	symCache  []assertInfo
	nEntry    int
	defTerm   map[string]string
	curBlock  int   // block of the verified function currently executing (-1: entry / global facts)
	assertBlk []int // origin block of each assertion
	assertTag []string // for assumed callee postconditions: the clause's tags (comma separated); "" otherwise
	curTag    string
	reach     [][]bool

}

type structInfo struct {
	name string
	st   *types.Struct
	t    types.Type
}

func newCtx(prog *Program, mode Mode) *Ctx {
	c := newCtx0(prog, mode)
	wrapInQuant = func() bool { return c.inQuant > 0 }
	return c
}

func newCtx0(prog *Program, mode Mode) *Ctx {
	return &Ctx{prog: prog, mode: mode, structs: map[string]*structInfo{}, regions: map[string]string{},
		strConsts: map[string]string{}, funDecls: map[string]bool{}, notes: map[string]bool{}, curBlock: -1}
}

func (c *Ctx) note(s string) { c.notes[s] = true }

func (c *Ctx) addAssert(a string, blk int) {
	c.assert = append(c.assert, a)
	c.assertBlk = append(c.assertBlk, blk)
	c.assertTag = append(c.assertTag, c.curTag)
}

func (c *Ctx) fresh(prefix string) string {
	if c.inQuant > 0 && !strings.HasPrefix(prefix, "q_") {
		panic(unsupported("fresh symbol needed under a quantifier (" + prefix + ")"))
	}
	c.nfresh++
	return fmt.Sprintf("%s!%d", prefix, c.nfresh)
}

func (c *Ctx) declare(name, sort string) {
	c.decls = append(c.decls, fmt.Sprintf("(declare-const %s %s)", name, sort))
}

func (c *Ctx) declareFun(name string, args []string, ret string) {
	if c.funDecls[name] {
		return
	}
	c.funDecls[name] = true
	c.decls = append(c.decls, fmt.Sprintf("(declare-fun %s (%s) %s)", name, strings.Join(args, " "), ret))
}

// freshConst declares a new symbol of the sort of t and assumes it well-formed.
func (c *Ctx) freshConst(prefix string, t types.Type) string {
	n := c.fresh(prefix)
	c.declare(n, c.sortOf(t))
	return n
}

func (c *Ctx) freshSort(prefix string, sort string) string {
	n := c.fresh(prefix)
	c.declare(n, sort)
	return n
}

// assumeDef records a definitional axiom of a fresh symbol (the contents of a
// new array or string): it is satisfiable in every model whatever path is
// taken, so it needs no path guard (and is cheaper for the solvers without).
func (c *Ctx) assumeDef(fact string) {
	if c.inQuant > 0 || fact == "true" || fact == "" {
		return
	}
	c.addAssert(fact, c.curBlock)
}

func (c *Ctx) assume(fact string) {
	if c.inQuant > 0 {
		// facts derived under a binder would mention the bound variable; they are
		// consequences (well-formedness, axiom instances), never definitions of
		// fresh symbols (those are refused under a binder), so dropping is sound
		return
	}
	if fact == "true" || fact == "" {
		return
	}
	c.addAssert(fact, c.curBlock)
}

// assumeOnPath records a fact that only holds where the current path is
// taken (a value invariant of something loaded from memory, say).  In a model
// where the path is not taken the same term may denote anything -- a store
// built from the zero value of a failed type assertion, for instance -- and an
// unguarded fact about it would contradict the other paths' assumptions and
// make their obligations vacuous.  Structural facts (well-formedness of
// references, integer ranges, definitional axioms) stay unguarded: they are
// satisfiable on every path and much cheaper for the solvers that way.
func (c *Ctx) assumeOnPath(fact string) {
	if c.inQuant > 0 || fact == "true" || fact == "" {
		return
	}
	g := c.curGuard
	if g == "" {
		g = "true"
	}
	if c.outerGuard != "" && c.outerGuard != "true" {
		g = and(c.outerGuard, g)
	}
	if g != "true" {
		fact = implies(g, fact)
	}
	c.addAssert(fact, c.curBlock)
}


// def introduces a name for a term (keeps queries linear in size).
func (c *Ctx) def(prefix, sort, term string) string {
	if len(term) < 40 || c.inQuant > 0 {
		return term
	}
	n := c.fresh(prefix)
	c.declare(n, sort)
	c.addAssert(eq(n, term), c.curBlock)
	if c.defTerm == nil {
		c.defTerm = map[string]string{}
	}
	c.defTerm[n] = term
	return n
}

// resolve looks through a definition introduced by def.
func (c *Ctx) resolve(t string) string {
	if d, ok := c.defTerm[t]; ok {
		return d
	}
	return t
}

// ---------------------------------------------------------------------
// sorts

func qual(p *types.Package) string { return p.Name() }

// typeStr names a type; the universe aliases byte and rune are written as
// uint8 and int32 so that []byte and []uint8 share one heap region.
func typeStr(t types.Type) string {
	s := types.TypeString(t, qual)
	if strings.Contains(s, "byte") || strings.Contains(s, "rune") {
		s = aliasRe.ReplaceAllStringFunc(s, func(m string) string {
			if m == "byte" {
				return "uint8"
			}
			return "int32"
		})
	}
	return s
}

var aliasRe = regexp.MustCompile(`\b(byte|rune)\b`)

func san(s string) string {
	var b strings.Builder
	for _, r := range s {
		switch {
		case r >= 'a' && r <= 'z', r >= 'A' && r <= 'Z', r >= '0' && r <= '9':
			b.WriteRune(r)
		case r == '*':
			b.WriteString("P")
		case r == '[':
			b.WriteString("L")
		case r == ']':
			b.WriteString("J")
		default:
			b.WriteString("_")
		}
	}
	return b.String()
}

func intInfo(t types.Type) (width int, signed bool, ok bool) {
	b, isB := t.Underlying().(*types.Basic)
	if !isB {
		return 0, false, false
	}
	switch b.Kind() {
	case types.Int, types.Int64, types.UntypedInt, types.UntypedRune:
		return 64, true, true
	case types.Int32:
		return 32, true, true
	case types.Int16:
		return 16, true, true
	case types.Int8:
		return 8, true, true
	case types.Uint, types.Uint64, types.Uintptr:
		return 64, false, true
	case types.Uint32:
		return 32, false, true
	case types.Uint16:
		return 16, false, true
	case types.Uint8:
		return 8, false, true
	}
	return 0, false, false
}

func isFloat(t types.Type) bool {
	b, ok := t.Underlying().(*types.Basic)
	return ok && b.Info()&types.IsFloat != 0
}

func isString(t types.Type) bool {
	b, ok := t.Underlying().(*types.Basic)
	return ok && b.Info()&types.IsString != 0
}

func isBool(t types.Type) bool {
	b, ok := t.Underlying().(*types.Basic)
	return ok && b.Info()&types.IsBoolean != 0
}

func isIface(t types.Type) bool {
	_, ok := t.Underlying().(*types.Interface)
	return ok
}

func (c *Ctx) intSort(w int) string {
	if c.mode.BV {
		return fmt.Sprintf("(_ BitVec %d)", w)
	}
	return "Int"
}

func (c *Ctx) floatSort() string {
	if c.mode.FP {
		return "(_ FloatingPoint 11 53)"
	}
	return "Real"
}

// idx sort: references and ghost integers are always mathematical Int.
func (c *Ctx) sortOf(t types.Type) string {
	switch u := t.Underlying().(type) {
	case *types.Basic:
		if w, _, ok := intInfo(t); ok {
			return c.intSort(w)
		}
		switch {
		case u.Info()&types.IsBoolean != 0:
			return "Bool"
		case u.Info()&types.IsFloat != 0:
			return c.floatSort()
		case u.Info()&types.IsString != 0:
			return "Str"
		case u.Kind() == types.UnsafePointer:
			return "Int"
		case u.Kind() == types.UntypedNil:
			return "Int"
		}
	case *types.Slice:
		return "Slice"
	case *types.Map, *types.Pointer, *types.Chan, *types.Signature:
		return "Int"
	case *types.Interface:
		return "Iface"
	case *types.Struct:
		return c.structSort(t)
	case *types.Array:
		return "(Array Int " + c.sortOf(u.Elem()) + ")"
	case *types.Tuple:
		return "Int"
	}
	panic(unsupported("sort of " + t.String()))
}

func (c *Ctx) structSort(t types.Type) string {
	st := t.Underlying().(*types.Struct)
	name := "S_" + san(typeStr(t))
	if _, ok := c.structs[name]; !ok {
		c.structs[name] = &structInfo{name: name, st: st, t: t}
		// register field sorts first (dependencies)
		for i := 0; i < st.NumFields(); i++ {
			c.sortOf(st.Field(i).Type())
		}
		c.structOrd = append(c.structOrd, name)
	}
	return name
}

func structFieldSel(sname string, i int, st *types.Struct) string {
	return fmt.Sprintf("%s.%s", sname, san(st.Field(i).Name()))
}

type unsupported string

func (u unsupported) Error() string { return "unsupported: " + string(u) }

// ---------------------------------------------------------------------
// regions (heap arrays).  The *current* value of a region lives in the
// symbolic state; here we only fix names and sorts.

func (c *Ctx) fieldRegion(st types.Type, i int) (string, string) {
	s := st.Underlying().(*types.Struct)
	name := "F_" + san(typeStr(st)) + "_" + san(s.Field(i).Name())
	sort := "(Array Int " + c.sortOf(s.Field(i).Type()) + ")"
	c.regions[name] = sort
	return name, sort
}

func (c *Ctx) elemRegion(elem types.Type) (string, string) {
	name := "H_" + san(typeStr(elem))
	sort := "(Array Int (Array Int " + c.sortOf(elem) + "))"
	c.regions[name] = sort
	return name, sort
}

func (c *Ctx) cellRegion(t types.Type) (string, string) {
	name := "C_" + san(typeStr(t))
	sort := "(Array Int " + c.sortOf(t) + ")"
	c.regions[name] = sort
	return name, sort
}

func mapKey(t types.Type) string {
	m := t.Underlying().(*types.Map)
	return san(typeStr(m.Key().Underlying())) + "__" + san(typeStr(m.Elem()))
}

// map regions: has, val, len
func (c *Ctx) mapRegions(t types.Type) (has, val, ln string) {
	m := t.Underlying().(*types.Map)
	k := mapKey(t)
	has, val, ln = "MH_"+k, "MV_"+k, "ML_"+k
	ks := c.sortOf(m.Key())
	c.regions[has] = "(Array Int (Array " + ks + " Bool))"
	c.regions[val] = "(Array Int (Array " + ks + " " + c.sortOf(m.Elem()) + "))"
	c.regions[ln] = "(Array Int Int)"
	return
}

// ---------------------------------------------------------------------
// integer ranges, zero values, well-formedness

func intRange(w int, signed bool) (lo, hi *big.Int) {
	if signed {
		hi = new(big.Int).Lsh(big.NewInt(1), uint(w-1))
		lo = new(big.Int).Neg(hi)
		hi = new(big.Int).Sub(hi, big.NewInt(1))
		return
	}
	lo = big.NewInt(0)
	hi = new(big.Int).Sub(new(big.Int).Lsh(big.NewInt(1), uint(w)), big.NewInt(1))
	return
}

func (c *Ctx) intConst(t types.Type, v *big.Int) string {
	w, signed, ok := intInfo(t)
	if !ok {
		panic(unsupported("int const of " + t.String()))
	}
	if c.mode.BV {
		return bvLit(v, w)
	}
	lo, hi := intRange(w, signed)
	if v.Cmp(lo) < 0 || v.Cmp(hi) > 0 {
		// wrap (constants of out-of-range value do not type-check in Go, but be safe)
		m := new(big.Int).Lsh(big.NewInt(1), uint(w))
		x := new(big.Int).Mod(v, m)
		if signed && x.Cmp(hi) > 0 {
			x.Sub(x, m)
		}
		v = x
	}
	return intLit(v)
}

func (c *Ctx) floatConst(f float64) string {
	if c.mode.FP {
		bits := mathFloat64bits(f)
		return fmt.Sprintf("((_ to_fp 11 53) (_ bv%d 64))", bits)
	}
	r := new(big.Rat).SetFloat64(f)
	if r == nil {
		panic(unsupported("non-finite float constant"))
	}
	return ratLit(r)
}

func ratLit(r *big.Rat) string {
	num, den := r.Num(), r.Denom()
	neg := num.Sign() < 0
	n := new(big.Int).Abs(num)
	var s string
	if den.Cmp(big.NewInt(1)) == 0 {
		s = n.String() + ".0"
	} else {
		s = "(/ " + n.String() + ".0 " + den.String() + ".0)"
	}
	if neg {
		s = "(- " + s + ")"
	}
	return s
}

func (c *Ctx) constVal(t types.Type, v constant.Value) Val {
	if v == nil {
		return Val{T: t, S: c.zero(t)}
	}
	switch {
	case isBool(t):
		if constant.BoolVal(v) {
			return Val{T: t, S: "true"}
		}
		return Val{T: t, S: "false"}
	case isString(t):
		return Val{T: t, S: c.strConst(constant.StringVal(v))}
	case isFloat(t):
		f, _ := constant.Float64Val(constant.ToFloat(v))
		return Val{T: t, S: c.floatConst(f)}
	}
	if _, _, ok := intInfo(t); ok {
		iv := constant.ToInt(v)
		bi, ok := new(big.Int).SetString(iv.ExactString(), 10)
		if !ok {
			panic(unsupported("int constant " + v.ExactString()))
		}
		return Val{T: t, S: c.intConst(t, bi)}
	}
	panic(unsupported("constant of type " + t.String()))
}

func (c *Ctx) zero(t types.Type) string {
	switch u := t.Underlying().(type) {
	case *types.Basic:
		if _, _, ok := intInfo(t); ok {
			return c.intConst(t, big.NewInt(0))
		}
		switch {
		case u.Info()&types.IsBoolean != 0:
			return "false"
		case u.Info()&types.IsFloat != 0:
			return c.floatConst(0)
		case u.Info()&types.IsString != 0:
			return c.strConst("")
		}
		return "0"
	case *types.Slice:
		return "(mk-slice 0 0 0 0)"
	case *types.Map, *types.Pointer, *types.Chan, *types.Signature:
		return "0"
	case *types.Interface:
		return "I_nil"
	case *types.Struct:
		name := c.structSort(t)
		if u.NumFields() == 0 {
			return "mk-" + name
		}
		var fs []string
		for i := 0; i < u.NumFields(); i++ {
			fs = append(fs, c.zero(u.Field(i).Type()))
		}
		return sx("mk-"+name, fs...)
	case *types.Array:
		return fmt.Sprintf("((as const %s) %s)", c.sortOf(t), c.zero(u.Elem()))
	}
	panic(unsupported("zero of " + t.String()))
}

func (c *Ctx) strConst(s string) string {
	if n, ok := c.strConsts[s]; ok {
		return n
	}
	n := fmt.Sprintf("gstr_k%d", len(c.strConsts))
	c.strConsts[s] = n
	c.strOrder = append(c.strOrder, s)
	return n
}

const maxObj = "1099511627776" // 2^40: no single Go object has more elements (stated assumption)

// wf returns the well-formedness fact for a value of type t (shallow).
func (c *Ctx) wf(t types.Type, v string) string {
	switch u := t.Underlying().(type) {
	case *types.Basic:
		if w, signed, ok := intInfo(t); ok {
			if c.mode.BV {
				return "true"
			}
			lo, hi := intRange(w, signed)
			return and(sx("<=", intLit(lo), v), sx("<=", v, intLit(hi)))
		}
		if u.Info()&types.IsString != 0 {
			return and(sx("<=", "0", sx("gstr_len", v)), sx("<=", sx("gstr_len", v), maxObj))
		}
		return "true"
	case *types.Slice:
		return sx("wf_slice", v, "%%ALLOC%%")
	case *types.Map, *types.Pointer, *types.Chan:
		return and(sx("<=", "0", v), sx("<=", v, "%%ALLOC%%"))
	case *types.Struct:
		name := c.structSort(t)
		var fs []string
		for i := 0; i < u.NumFields(); i++ {
			fs = append(fs, c.wf(u.Field(i).Type(), sx(structFieldSel(name, i, u), v)))
		}
		return and(fs...)
	}
	return "true"
}

// wfIfaceRefs: the references an interface value carries (pointer and map
// payloads) denote objects that exist (<= alloc).  Used for interface-typed
// parameters with methods (io.Writer, io.Reader): an object allocated later
// is different from whatever such a parameter holds.
func (c *Ctx) wfIfaceRefs(v, alloc string) string {
	var fs []string
	for _, t := range c.prog.ifaceTypes {
		switch t.Underlying().(type) {
		case *types.Pointer, *types.Map, *types.Chan:
			n := ifaceCtorName(t)
			pv := fmt.Sprintf("(pv_%s %s)", n[2:], v)
			fs = append(fs, implies(fmt.Sprintf("((_ is %s) %s)", n, v), and(sx("<=", "0", pv), sx("<=", pv, alloc))))
		}
	}
	return and(fs...)
}

// wfAt is wf with an explicit allocation counter term.
func (c *Ctx) wfAt(t types.Type, v string, alloc string) string {
	return strings.ReplaceAll(c.wf(t, v), "%%ALLOC%%", alloc)
}

// ---------------------------------------------------------------------
// preamble

func (c *Ctx) preamble() string {
	c.preOnce.Do(func() { c.preText = c.buildPreamble() })
	return c.preText
}

func (c *Ctx) buildPreamble() string {
	var b strings.Builder
	b.WriteString("(set-logic ALL)\n")
	b.WriteString("(declare-sort Str 0)\n")
	// datatypes: Slice, structs, Iface in one mutually recursive block
	var names, bodies []string
	names = append(names, "(Slice 0)")
	bodies = append(bodies, "((mk-slice (s.ref Int) (s.off Int) (s.len Int) (s.cap Int)))")
	// make sure all Iface payload sorts are registered
	ifc := c.ifaceCtors()
	ord := append([]string{}, c.structOrd...)
	for _, n := range ord {
		si := c.structs[n]
		names = append(names, "("+n+" 0)")
		if si.st.NumFields() == 0 {
			bodies = append(bodies, "((mk-"+n+"))")
			continue
		}
		var fs []string
		for i := 0; i < si.st.NumFields(); i++ {
			fs = append(fs, fmt.Sprintf("(%s %s)", structFieldSel(n, i, si.st), c.sortOf(si.st.Field(i).Type())))
		}
		bodies = append(bodies, "((mk-"+n+" "+strings.Join(fs, " ")+"))")
	}
	names = append(names, "(Iface 0)")
	bodies = append(bodies, "("+strings.Join(ifc, " ")+")")
	b.WriteString("(declare-datatypes (" + strings.Join(names, " ") + ") (" + strings.Join(bodies, "\n  ") + "))\n")
	b.WriteString("(declare-fun gstr_len (Str) Int)\n")
	b.WriteString("(declare-fun gstr_at (Str Int) " + c.intSort(8) + ")\n")
	for _, w := range []int{8, 16, 32, 64} {
		for _, signed := range []bool{true, false} {
			lo, hi := intRange(w, signed)
			sg := "u"
			if signed {
				sg = "s"
			}
			m := pow2(w).String()
			b.WriteString(fmt.Sprintf("(define-fun wrap1_%s%d ((x Int)) Int (ite (> x %s) (- x %s) (ite (< x %s) (+ x %s) x)))\n", sg, w, intLit(hi), m, intLit(lo), m))
			b.WriteString(fmt.Sprintf("(define-fun wrapm_%s%d ((x Int)) Int (ite (and (<= %s x) (<= x %s)) x %s))\n", sg, w, intLit(lo), intLit(hi), wrapLIA("x", w, signed)))
		}
	}
	{
		var terms []string
		for k := 0; k < 8; k++ {
			p := pow2(k).String()
			terms = append(terms, fmt.Sprintf("(* %s (mod (+ (div x %s) (div y %s)) 2))", p, p, p))
		}
		b.WriteString("(define-fun xor8_exact ((x Int) (y Int)) Int (+ " + strings.Join(terms, " ") + "))\n")
	}
	b.WriteString("(define-fun wf_slice ((s Slice) (a Int)) Bool (and (<= 0 (s.ref s)) (<= (s.ref s) a) (<= 0 (s.off s)) (<= 0 (s.len s)) (<= (s.len s) (s.cap s)) (<= (+ (s.off s) (s.cap s)) " + maxObj + ") (=> (= (s.ref s) 0) (= (s.cap s) 0))))\n")
	// string literals
	var lits []string
	for _, s := range c.strOrder {
		n := c.strConsts[s]
		lits = append(lits, n)
		b.WriteString(fmt.Sprintf("(declare-const %s Str)\n", n))
		b.WriteString(fmt.Sprintf("(assert (= (gstr_len %s) %d))\n", n, len(s)))
		if len(s) <= 64 {
			for i := 0; i < len(s); i++ {
				b.WriteString(fmt.Sprintf("(assert (= (gstr_at %s %d) %s))\n", n, i, c.intConst(types.Typ[types.Uint8], big.NewInt(int64(s[i])))))
			}
		}
	}
	if len(lits) > 1 {
		b.WriteString("(assert (distinct " + strings.Join(lits, " ") + "))\n")
	}
	if e, ok := c.strConsts[""]; ok {
		b.WriteString("(assert (forall ((s Str)) (! (=> (= (gstr_len s) 0) (= s " + e + ")) :pattern ((gstr_len s)))))\n")
	}
	for _, d := range c.decls {
		b.WriteString(d)
		b.WriteString("\n")
	}
	return b.String()
}

// ifaceCtors lists the constructors of the global interface datatype.
func (c *Ctx) ifaceCtors() []string {
	out := []string{"(I_nil)"}
	for _, t := range c.prog.ifaceTypes {
		n := ifaceCtorName(t)
		out = append(out, fmt.Sprintf("(%s (pv_%s %s))", n, n[2:], c.sortOf(t)))
	}
	out = append(out, "(I_other (oth_tid Int) (oth_pv Int))")
	return out
}

func ifaceCtorName(t types.Type) string { return "I_" + san(typeStr(t)) }

func (c *Ctx) ifaceKnown(t types.Type) bool {
	for _, u := range c.prog.ifaceTypes {
		if types.Identical(u, t) {
			return true
		}
	}
	return false
}

func sortedKeys[V any](m map[string]V) []string {
	var ks []string
	for k := range m {
		ks = append(ks, k)
	}
	sort.Strings(ks)
	return ks
}
