package main

// Loading the current working tree of /repo (build tag verif), building
// go/ssa in naive form, and parsing the //@ contract blocks.

import (
	"sync"
	"fmt"
	"go/ast"
	"go/constant"
	"go/token"
	"go/types"
	"os"
	"path/filepath"
	"sort"
	"strings"

	"golang.org/x/tools/go/packages"
	"golang.org/x/tools/go/ssa"
	"golang.org/x/tools/go/ssa/ssautil"
)

type Program struct {
	fset       *token.FileSet
	pkgs       []*packages.Package
	ssaProg    *ssa.Program
	ssaPkgs    map[string]*ssa.Package // by package path
	byName     map[string]*ssa.Function // "pkg.Func", "pkg.(*T).M", "pkg.Func$1"
	contracts  map[string]*FuncContract
	ifaceTypes []types.Type
	modPath    string
	funcIDs    map[*ssa.Function]int
	funcList   []*ssa.Function
	modsets    map[*ssa.Function]*ModSet
	repo       string
	extSpecs   map[string]*FuncContract // trusted contracts for functions outside the module
	sweeps     []sweepSpec
	mapOrders  []mapOrderSpec
	lockSpecs  []mapOrderSpec
	constGlobals map[*ssa.Global]*constGlobalInfo
	fieldInitOnly map[string]bool
	allFuncs   map[*ssa.Function]bool
	typeInvs   []typeInv
	valueInvs  []*valueInv
	defines    map[string]*Define
	localsSnap map[string][]varRec // contracts/locals.json: declared variables of functions under contract
	renameCache map[*ssa.Function][]renamePair
	renameMu    sync.Mutex
}

// Define: a named predicate/expression of the contract language
// ("//@ define name(a, b) = expr"), expanded at use.
type Define struct {
	Name, Pkg string
	Params    []string
	Body      *Clause
}

// valueInv: an invariant of every value of a named type that is stored in
// the heap (asserted at stores, assumed at loads).
type valueInv struct {
	pkg, typ, fn, line string
	zeroSafe           bool
}

type typeInv struct{ pkg, typ, fn, line string }

// applyTypeInvs adds, for every function under contract with a parameter of
// type *T, "requires p != nil && inv(p)" and "ensures inv(p)".
func (p *Program) applyTypeInvs() {
	for _, ti := range p.typeInvs {
		for _, k := range sortedKeys(p.contracts) {
			fc := p.contracts[k]
			fn := p.byName[k]
			if fn == nil || fc.NoInv || p.isGhostFn(fn) || fn.Pkg == nil && fn.Parent() == nil {
				continue
			}
			root := fn
			for root.Parent() != nil {
				root = root.Parent()
			}
			if root.Pkg == nil || root.Pkg.Pkg.Name() != ti.pkg {
				continue
			}
			for _, pr := range fn.Params {
				pt, ok := pr.Type().(*types.Pointer)
				if !ok {
					continue
				}
				nt, ok := pt.Elem().(*types.Named)
				if !ok || nt.Obj().Name() != ti.typ {
					continue
				}
				rq := &Clause{Kind: "requires", Text: fmt.Sprintf("%s != nil && %s(%s)", pr.Name(), ti.fn, pr.Name()), Line: ti.line}
				en := &Clause{Kind: "ensures", Text: fmt.Sprintf("%s(%s)", ti.fn, pr.Name()), Line: ti.line, Tags: nil}
				fc.Requires = append([]*Clause{rq}, fc.Requires...)
				fc.Ensures = append([]*Clause{en}, fc.Ensures...)
				fc.InvParams = append(fc.InvParams, pr.Name())
				fc.LoopTypeInvs = append(fc.LoopTypeInvs, &Clause{Kind: "invariant", Text: fmt.Sprintf("%s(old(%s))", ti.fn, pr.Name()), Line: ti.line})
			}
		}
	}
}

type sweepSpec struct {
	pkg, prop, file, dir string
	excl                 []string
}

// applySweeps gives every function declared in a swept file an (empty)
// contract block carrying the implicit safety obligations.
func (p *Program) applySweeps() {
	for _, sw := range p.sweeps {
		target := filepath.Join(sw.dir, sw.file)
		for _, k := range sortedKeys(p.byName) {
			fn := p.byName[k]
			if fn.Syntax() == nil || p.isGhostFn(fn) {
				continue
			}
			if p.fset.Position(fn.Syntax().Pos()).Filename != target {
				continue
			}
			if deferOnly(fn) || confinedClosure(fn) {
				continue // always inlined at its call sites; its obligations are generated there
			}
			skip := false
			for _, e := range sw.excl {
				root := fn
				for root.Parent() != nil {
					root = root.Parent()
				}
				if root.Name() == e {
					skip = true
				}
			}
			if skip {
				continue
			}
			fc := p.contracts[k]
			if fc == nil {
				fc = &FuncContract{Key: k, File: target, Loops: map[int]*LoopContract{}, Skip: map[string]bool{}, Props: map[string]bool{}}
				p.contracts[k] = fc
			}
			has := false
			for _, s := range fc.Safety {
				if s == sw.prop {
					has = true
				}
			}
			if !has {
				fc.Safety = append(fc.Safety, sw.prop)
				fc.Props[sw.prop] = true
			}
		}
	}
}

type Clause struct {
	Kind  string // requires, ensures, invariant, decreases
	Tags  []string
	Text  string
	Expr  ast.Expr
	Line  string // file:line of the contract text
	Label string
	// Opaque: an ensures clause that callers only assume when they "reveal"
	// one of its tags (keeps heavy facts out of queries that do not need them).
	Opaque bool
	// Uses: when set, only the callee postconditions carrying one of these tags
	// (and untagged ones) are kept in the queries of this clause's obligations.
	Uses []string
	// Stable: a two-state ensures clause of a writer's Write method that is
	// reflexive and transitive (both checked), so that it also relates the
	// states before and after any number of Write calls made by external
	// write-through code (fmt.Fprintf, text/template).
	Stable bool
}

type LoopContract struct {
	Invariants []*Clause
	Decreases  *Clause
	Unroll     int
	ExitWhen   []*Clause // must hold on every edge that leaves the loop normally (not by return)
	BackWhen   []*Clause // must hold on every back edge
}

type FuncContract struct {
	Key       string
	File      string
	Line      int
	Requires  []*Clause
	Ensures   []*Clause
	Loops     map[int]*LoopContract
	Arith     Mode
	Safety    []string // property ids the implicit safety obligations belong to
	Inline    bool
	Pure      bool
	Trusted   bool // contract assumed, body not verified (external / stated)
	Skip      map[string]bool // obligation kinds not generated
	Ghost     bool            // spec function (never verified, only inlined)
	Lemma     bool
	Opaque    bool
	Used      bool
	Props     map[string]bool
	Modifies  []string
	Notes     []string
	NoInv     bool
	BadRefine bool
	FuncType  string
	NoLoopInv bool
	LoopTypeInvs []*Clause
	ParamNames []string
	InvParams []string
	Named     bool            // ghost function kept as a named SMT function (clean quantifier triggers)
	LockProps []string        // properties the lock-discipline obligations belong to
	MapOrder  []string        // properties the map-iteration order obligations belong to
	Reveal    map[string]bool // tags of opaque callee ensures this function's proofs use
	Lemmas    []*PointLemma   // program-point lemmas (proved where execution reaches the statement, then assumed)
}

// PointLemma: "//@ before "<source line>" k lemma [tag] E": E (over the entry
// state old(...) and the current state) is proved when execution reaches the
// k-th statement of the function whose source line reads <source line>, and
// is assumed from there on -- an intermediate assertion kept in the contract
// file instead of the code.
type PointLemma struct {
	Text string
	K    int
	Cl   *Clause
}

func loadProgram(repo string) (*Program, error) {
	cfg := &packages.Config{
		Mode:       packages.LoadAllSyntax,
		Dir:        repo,
		BuildFlags: []string{"-tags=verif"},
		Env:        append(os.Environ(), "GOFLAGS=-mod=mod", "GOPROXY=off", "GOSUMDB=off", "GOTOOLCHAIN=local"),
	}
	pkgs, err := packages.Load(cfg, "./...")
	if err != nil {
		return nil, err
	}
	nerr := 0
	for _, p := range pkgs {
		for _, e := range p.Errors {
			fmt.Fprintln(os.Stderr, "load error:", e)
			nerr++
		}
	}
	if nerr > 0 {
		return nil, fmt.Errorf("%d package load errors (the tree does not compile with -tags verif)", nerr)
	}
	sprog, spkgs := ssautil.AllPackages(pkgs, ssa.NaiveForm|ssa.GlobalDebug)
	sprog.Build()
	p := &Program{fset: pkgs[0].Fset, pkgs: pkgs, ssaProg: sprog, ssaPkgs: map[string]*ssa.Package{},
		byName: map[string]*ssa.Function{}, contracts: map[string]*FuncContract{}, funcIDs: map[*ssa.Function]int{},
		modsets: map[*ssa.Function]*ModSet{}, repo: repo, extSpecs: map[string]*FuncContract{}, defines: map[string]*Define{}}
	for i, sp := range spkgs {
		if sp == nil {
			continue
		}
		p.ssaPkgs[pkgs[i].PkgPath] = sp
		if p.modPath == "" || len(pkgs[i].PkgPath) < len(p.modPath) {
			p.modPath = pkgs[i].PkgPath
		}
	}
	// index functions
	p.allFuncs = ssautil.AllFunctions(sprog)
	for fn := range p.allFuncs {
		if fn.Pkg == nil || !p.inModule(fn.Pkg.Pkg.Path()) {
			continue
		}
		p.byName[p.funcKey(fn)] = fn
	}
	keys := sortedKeys(p.byName)
	for i, k := range keys {
		p.funcIDs[p.byName[k]] = i + 1
		p.funcList = append(p.funcList, p.byName[k])
	}
	p.scanIfaceTypes()
	for _, pk := range pkgs {
		if err := p.parseContracts(pk); err != nil {
			return nil, err
		}
	}
	p.resolveAliases()
	p.applySweeps()
	p.applyMapOrder()
	p.applyLockSpecs()
	p.applyFuncTypeContracts()
	p.applyTypeInvs()
	p.analyseGlobals()
	if os.Getenv("GOVC_DEBUG") != "" {
		p.dumpGlobals()
	}
	return p, nil
}

func (p *Program) inModule(path string) bool {
	return path == p.modPath || strings.HasPrefix(path, p.modPath+"/")
}

// funcKey: "pkgname.Func", "pkgname.(*T).M", "pkgname.T.M", anonymous: parent key + "$k".
func (p *Program) funcKey(fn *ssa.Function) string {
	if fn.Parent() != nil {
		par := fn.Parent()
		idx := 0
		for i, a := range par.AnonFuncs {
			if a == fn {
				idx = i + 1
			}
		}
		return fmt.Sprintf("%s$%d", p.funcKey(par), idx)
	}
	pk := ""
	if fn.Pkg != nil {
		pk = fn.Pkg.Pkg.Name()
	} else if fn.Object() != nil && fn.Object().Pkg() != nil {
		pk = fn.Object().Pkg().Name()
	}
	if recv := fn.Signature.Recv(); recv != nil {
		rt := recv.Type()
		star := ""
		if pt, ok := rt.(*types.Pointer); ok {
			rt = pt.Elem()
			star = "*"
		}
		name := ""
		if nt, ok := rt.(*types.Named); ok {
			name = nt.Obj().Name()
			if nt.Obj().Pkg() != nil {
				pk = nt.Obj().Pkg().Name()
			}
		} else {
			name = rt.String()
		}
		if star != "" {
			return fmt.Sprintf("%s.(*%s).%s", pk, name, fn.Name())
		}
		return fmt.Sprintf("%s.%s.%s", pk, name, fn.Name())
	}
	return pk + "." + fn.Name()
}

// extKey names a function outside the module: "io.ReadFull", "(*bytes.Buffer).Write".
func extKey(fn *ssa.Function) string {
	if fn.Object() != nil {
		if f, ok := fn.Object().(*types.Func); ok {
			return f.FullName()
		}
	}
	return fn.String()
}

func (p *Program) scanIfaceTypes() {
	seen := map[string]types.Type{}
	add := func(t types.Type) {
		if t == nil || isIface(t) {
			return
		}
		if _, ok := t.(*types.Tuple); ok {
			return
		}
		if b, ok := t.(*types.Basic); ok && (b.Info()&types.IsUntyped != 0 || b.Kind() == types.Invalid) {
			return
		}
		if tp, ok := t.(*types.TypeParam); ok {
			_ = tp
			return
		}
		seen[typeStr(t)] = t
	}
	for _, fn := range p.funcList {
		for _, b := range fn.Blocks {
			for _, in := range b.Instrs {
				switch in := in.(type) {
				case *ssa.MakeInterface:
					add(in.X.Type())
				case *ssa.TypeAssert:
					add(in.AssertedType)
				}
			}
		}
	}
	// errors.New results and friends are opaque (I_other)
	for _, k := range sortedKeys(seen) {
		t := seen[k]
		// skip types whose sort we cannot represent
		if !representable(t, 0) {
			continue
		}
		p.ifaceTypes = append(p.ifaceTypes, t)
	}
}

func representable(t types.Type, depth int) bool {
	if depth > 6 {
		return false
	}
	switch u := t.Underlying().(type) {
	case *types.Basic:
		return u.Kind() != types.Invalid && u.Info()&types.IsComplex == 0
	case *types.Slice, *types.Map, *types.Pointer, *types.Chan, *types.Signature, *types.Interface:
		return true
	case *types.Struct:
		for i := 0; i < u.NumFields(); i++ {
			if !representable(u.Field(i).Type(), depth+1) {
				return false
			}
		}
		return true
	case *types.Array:
		return representable(u.Elem(), depth+1)
	}
	return false
}

// ---------------------------------------------------------------------
// contract blocks

var clauseKeywords = map[string]bool{"func": true, "requires": true, "ensures": true, "loop": true, "arith": true,
	"safety": true, "inline": true, "pure": true, "trusted": true, "skip": true, "ghost": true, "lemma": true,
	"modifies": true, "note": true, "opaque": true, "sweep": true, "typeinv": true, "noinv": true, "valueinv": true, "params": true, "noloopinv": true, "define": true, "reveal": true, "maporder": true, "named": true, "lockdiscipline": true, "before": true}

func (p *Program) parseContracts(pk *packages.Package) error {
	for i, f := range pk.Syntax {
		fname := pk.CompiledGoFiles[i]
		if !strings.HasSuffix(fname, "_verif.go") {
			continue
		}
		if err := p.parseContractFile(pk.Types.Name(), f, fname, false); err != nil {
			return err
		}
	}
	return nil
}

func (p *Program) parseContractFile(pkgName string, f *ast.File, fname string, external bool) error {
	var cur *FuncContract
	var last *Clause
	lastStr := (*string)(nil)
	for _, cg := range f.Comments {
		for _, cm := range cg.List {
			txt := cm.Text
			if !strings.HasPrefix(txt, "//@") {
				continue
			}
			line := strings.TrimSpace(txt[3:])
			if line == "" {
				continue
			}
			pos := p.fset.Position(cm.Pos())
			where := fmt.Sprintf("%s:%d", filepath.Base(pos.Filename), pos.Line)
			word, rest := splitWord(line)
			if !clauseKeywords[word] {
				// continuation of the previous clause
				if lastStr != nil {
					*lastStr += " " + line
					continue
				}
				return fmt.Errorf("%s: continuation line without clause: %s", where, line)
			}
			lastStr = nil
			if word == "typeinv" {
				ws := strings.Fields(rest)
				if len(ws) < 2 {
					return fmt.Errorf("%s: typeinv needs a type and a spec function", where)
				}
				p.typeInvs = append(p.typeInvs, typeInv{pkg: pkgName, typ: ws[0], fn: ws[1], line: where})
				cur = nil
				continue
			}
			if word == "define" {
				// define name(p1, p2) = expr
				i := strings.Index(rest, "=")
				head := strings.TrimSpace(rest[:i])
				j := strings.Index(head, "(")
				if i < 0 || j < 0 || !strings.HasSuffix(head, ")") {
					return fmt.Errorf("%s: malformed define", where)
				}
				d := &Define{Name: head[:j], Pkg: pkgName, Body: &Clause{Kind: "define", Text: strings.TrimSpace(rest[i+1:]), Line: where}}
				for _, a := range strings.Split(head[j+1:len(head)-1], ",") {
					if a = strings.TrimSpace(a); a != "" {
						d.Params = append(d.Params, a)
					}
				}
				p.defines[pkgName+"."+d.Name] = d
				cur = nil
				lastStr = &d.Body.Text
				continue
			}
			if word == "valueinv" {
				ws := strings.Fields(rest)
				if len(ws) < 2 {
					return fmt.Errorf("%s: valueinv needs a type and a spec function", where)
				}
				p.valueInvs = append(p.valueInvs, &valueInv{pkg: pkgName, typ: ws[0], fn: ws[1], line: where, zeroSafe: len(ws) > 2 && ws[2] == "zero-safe"})
				cur = nil
				continue
			}
			if word == "sweep" {
				ws := strings.Fields(rest)
				if len(ws) < 2 {
					return fmt.Errorf("%s: sweep needs a property and file names", where)
				}
				var excl []string
				for _, fn := range ws[1:] {
					if strings.HasPrefix(fn, "-") {
						excl = append(excl, fn[1:])
					}
				}
				for _, fn := range ws[1:] {
					if strings.HasPrefix(fn, "-") {
						continue
					}
					p.sweeps = append(p.sweeps, sweepSpec{pkg: pkgName, prop: ws[0], file: fn, dir: filepath.Dir(fname), excl: excl})
				}
				cur = nil
				continue
			}
			if word == "lockdiscipline" {
				ws := strings.Fields(rest)
				if len(ws) < 2 {
					return fmt.Errorf("%s: lockdiscipline needs a property and file names", where)
				}
				for _, fn := range ws[1:] {
					p.lockSpecs = append(p.lockSpecs, mapOrderSpec{pkg: pkgName, prop: ws[0], file: fn, dir: filepath.Dir(fname)})
				}
				cur = nil
				continue
			}
			if word == "maporder" {
				ws := strings.Fields(rest)
				if len(ws) < 2 {
					return fmt.Errorf("%s: maporder needs a property and file names", where)
				}
				for _, fn := range ws[1:] {
					p.mapOrders = append(p.mapOrders, mapOrderSpec{pkg: pkgName, prop: ws[0], file: fn, dir: filepath.Dir(fname)})
				}
				cur = nil
				continue
			}
			if word == "func" {
				key := rest
				if !external {
					key = pkgName + "." + key
				}
				if external {
					cur = &FuncContract{Key: key, File: fname, Line: pos.Line, Loops: map[int]*LoopContract{}, Skip: map[string]bool{}, Props: map[string]bool{}, Trusted: true}
					p.extSpecs[key] = cur
				} else {
					if ex, dup := p.contracts[key]; dup {
						cur = ex // several blocks for one function are merged
						continue
					}
					cur = &FuncContract{Key: key, File: fname, Line: pos.Line, Loops: map[int]*LoopContract{}, Skip: map[string]bool{}, Props: map[string]bool{}}
					p.contracts[key] = cur
				}
				continue
			}
			if cur == nil {
				return fmt.Errorf("%s: clause before any '//@ func'", where)
			}
			switch word {
			case "requires", "ensures":
				cl := &Clause{Kind: word, Line: where}
				if w2, r2 := splitWord(rest); w2 == "opaque" && word == "ensures" {
					cl.Opaque = true
					rest = r2
				}
				if w2, r2 := splitWord(rest); w2 == "stable" && word == "ensures" {
					cl.Stable = true
					rest = r2
				}
				cl.Tags, cl.Text = splitTags(rest)
				cl.Uses, cl.Text = splitUses(cl.Text)
				for _, t := range cl.Tags {
					cur.Props[propOfTag(t)] = true
				}
				if word == "requires" {
					cur.Requires = append(cur.Requires, cl)
				} else {
					cur.Ensures = append(cur.Ensures, cl)
				}
				last = cl
				lastStr = &last.Text
			case "loop":
				var k int
				var sub string
				w2, r2 := splitWord(rest)
				if _, err := fmt.Sscanf(w2, "%d", &k); err != nil {
					return fmt.Errorf("%s: bad loop ordinal", where)
				}
				sub, r2 = splitWord(r2)
				lc := cur.Loops[k]
				if lc == nil {
					lc = &LoopContract{}
					cur.Loops[k] = lc
				}
				switch sub {
				case "invariant":
					cl := &Clause{Kind: "invariant", Line: where}
					cl.Tags, cl.Text = splitTags(r2)
					cl.Uses, cl.Text = splitUses(cl.Text)
					for _, t := range cl.Tags {
						cur.Props[propOfTag(t)] = true
					}
					lc.Invariants = append(lc.Invariants, cl)
					last = cl
					lastStr = &last.Text
				case "decreases":
					cl := &Clause{Kind: "decreases", Line: where}
					cl.Tags, cl.Text = splitTags(r2)
					cl.Uses, cl.Text = splitUses(cl.Text)
					for _, t := range cl.Tags {
						cur.Props[propOfTag(t)] = true
					}
					lc.Decreases = cl
					last = cl
					lastStr = &last.Text
				case "exit-when", "back-when":
					cl := &Clause{Kind: sub, Line: where}
					cl.Tags, cl.Text = splitTags(r2)
					cl.Uses, cl.Text = splitUses(cl.Text)
					for _, t := range cl.Tags {
						cur.Props[propOfTag(t)] = true
					}
					if sub == "exit-when" {
						lc.ExitWhen = append(lc.ExitWhen, cl)
					} else {
						lc.BackWhen = append(lc.BackWhen, cl)
					}
					last = cl
					lastStr = &last.Text
				case "unroll":
					fmt.Sscanf(r2, "%d", &lc.Unroll)
				default:
					return fmt.Errorf("%s: unknown loop clause %q", where, sub)
				}
			case "arith":
				for _, w := range strings.Fields(rest) {
					switch w {
					case "bv":
						cur.Arith.BV = true
					case "lia":
						cur.Arith.BV = false
					case "fp":
						cur.Arith.FP = true
					case "real":
						cur.Arith.FP = false
					default:
						return fmt.Errorf("%s: unknown arith mode %q", where, w)
					}
				}
			case "safety":
				for _, w := range strings.FieldsFunc(rest, func(r rune) bool { return r == ' ' || r == ',' }) {
					cur.Safety = append(cur.Safety, w)
					cur.Props[w] = true
				}
			case "named":
				cur.Named = true
			case "noinv":
				cur.NoInv = true
			case "before":
				// before "<text>" k lemma [tags] E
				r := strings.TrimSpace(rest)
				if !strings.HasPrefix(r, "\"") {
					return fmt.Errorf("%s: before: expected a quoted source line", where)
				}
				end := strings.Index(r[1:], "\" ")
				if end < 0 {
					return fmt.Errorf("%s: before: unterminated source line", where)
				}
				txt := r[1 : 1+end]
				r = strings.TrimSpace(r[end+2:])
				var k int
				w2, r2 := splitWord(r)
				if _, err := fmt.Sscanf(w2, "%d", &k); err != nil || k < 1 {
					return fmt.Errorf("%s: before: bad occurrence number", where)
				}
				w3, r3 := splitWord(r2)
				if w3 != "lemma" {
					return fmt.Errorf("%s: before: expected 'lemma'", where)
				}
				cl := &Clause{Kind: "lemma", Line: where}
				cl.Tags, cl.Text = splitTags(r3)
				cl.Uses, cl.Text = splitUses(cl.Text)
				for _, t := range cl.Tags {
					cur.Props[propOfTag(t)] = true
				}
				cur.Lemmas = append(cur.Lemmas, &PointLemma{Text: txt, K: k, Cl: cl})
				last = cl
				lastStr = &last.Text
			case "reveal":
				if cur.Reveal == nil {
					cur.Reveal = map[string]bool{}
				}
				for _, w := range strings.Fields(rest) {
					cur.Reveal[w] = true
				}
			case "noloopinv":
				cur.NoLoopInv = true
			case "params":
				cur.ParamNames = strings.Fields(rest)
			case "inline":
				cur.Inline = true
			case "pure":
				cur.Pure = true
			case "trusted":
				cur.Trusted = true
				cur.Notes = append(cur.Notes, rest)
			case "ghost":
				cur.Ghost = true
			case "lemma":
				cur.Lemma = true
			case "opaque":
				cur.Opaque = true
			case "skip":
				for _, w := range strings.Fields(rest) {
					cur.Skip[w] = true
				}
			case "modifies":
				cur.Modifies = append(cur.Modifies, strings.Fields(rest)...)
			case "note":
				cur.Notes = append(cur.Notes, rest)
			}
		}
	}
	return nil
}

func splitWord(s string) (string, string) {
	s = strings.TrimSpace(s)
	i := strings.IndexAny(s, " \t")
	if i < 0 {
		return s, ""
	}
	return s[:i], strings.TrimSpace(s[i+1:])
}

// splitTags: "[C14.hex,C01] expr" -> tags, expr
// splitUses strips an optional "uses(tag, tag, ...)" prefix.
func splitUses(s string) ([]string, string) {
	s = strings.TrimSpace(s)
	if !strings.HasPrefix(s, "uses(") {
		return nil, s
	}
	j := strings.Index(s, ")")
	if j < 0 {
		return nil, s
	}
	var out []string
	for _, t := range strings.Split(s[len("uses("):j], ",") {
		if t = strings.TrimSpace(t); t != "" {
			out = append(out, t)
		}
	}
	return out, strings.TrimSpace(s[j+1:])
}

func splitTags(s string) ([]string, string) {
	s = strings.TrimSpace(s)
	if strings.HasPrefix(s, "[") {
		if j := strings.Index(s, "]"); j > 0 {
			inner := s[1:j]
			ok := true
			for _, r := range inner {
				if !(r == ',' || r == '.' || r == '-' || r == '_' || r == '<' || r == '=' || r == '+' || r >= '0' && r <= '9' || r >= 'a' && r <= 'z' || r >= 'A' && r <= 'Z') {
					ok = false
				}
			}
			if ok && len(inner) > 0 && inner[0] == 'C' {
				return strings.Split(inner, ","), strings.TrimSpace(s[j+1:])
			}
		}
	}
	return nil, s
}

func propOfTag(t string) string {
	if i := strings.Index(t, "."); i > 0 {
		return t[:i]
	}
	return t
}

// loopHeaders returns the loop header blocks of fn in source order with
// their natural loop bodies.
type loopInfo struct {
	header *ssa.BasicBlock
	body   map[*ssa.BasicBlock]bool
	ord    int
	kind   string
	stmt   ast.Node // *ast.ForStmt / *ast.RangeStmt / nil
	// ext: blocks outside the natural loop whose predecessors all lie in the
	// loop (or in ext): the code in front of a break.
	ext map[*ssa.BasicBlock]bool
}

func findLoops(fn *ssa.Function) []*loopInfo {
	hdr := map[*ssa.BasicBlock]*loopInfo{}
	for _, b := range fn.Blocks {
		for _, s := range b.Succs {
			if s.Dominates(b) { // back edge b -> s
				li := hdr[s]
				if li == nil {
					li = &loopInfo{header: s, body: map[*ssa.BasicBlock]bool{s: true}, kind: s.Comment}
					hdr[s] = li
				}
				// natural loop: all blocks that reach b without passing s
				var stack []*ssa.BasicBlock
				if !li.body[b] {
					li.body[b] = true
					stack = append(stack, b)
				}
				for len(stack) > 0 {
					x := stack[len(stack)-1]
					stack = stack[:len(stack)-1]
					for _, pr := range x.Preds {
						if !li.body[pr] {
							li.body[pr] = true
							stack = append(stack, pr)
						}
					}
				}
			}
		}
	}
	var out []*loopInfo
	for _, li := range hdr {
		out = append(out, li)
	}
	sort.Slice(out, func(i, j int) bool { return out[i].header.Index < out[j].header.Index })
	for i, li := range out {
		li.ord = i + 1
		li.ext = nil
	}
	return out
}

// astLoops lists for/range statements of a function body in source order
// (not descending into function literals).
func astLoops(body ast.Node) []ast.Node {
	var out []ast.Node
	if body == nil {
		return nil
	}
	ast.Inspect(body, func(n ast.Node) bool {
		switch n := n.(type) {
		case *ast.FuncLit:
			return n == body
		case *ast.ForStmt, *ast.RangeStmt:
			out = append(out, n)
		}
		return true
	})
	return out
}


// applyFuncTypeContracts: every function converted to a named function type
// that has a type contract ("//@ func type:T") inherits that contract's
// requires and ensures clauses, so that it refines the type contract by
// construction (same precondition, at least the same postcondition).
func (p *Program) applyFuncTypeContracts() {
	done := map[*ssa.Function]bool{}
	for _, fn := range p.funcList {
		for _, b := range fn.Blocks {
			for _, in := range b.Instrs {
				ct, ok := in.(*ssa.ChangeType)
				if !ok {
					continue
				}
				nt, ok := ct.Type().(*types.Named)
				if !ok || nt.Obj().Pkg() == nil {
					continue
				}
				tc := p.contracts[nt.Obj().Pkg().Name()+".type:"+nt.Obj().Name()]
				if tc == nil {
					continue
				}
				var target *ssa.Function
				switch v := ct.X.(type) {
				case *ssa.Function:
					target = v
				case *ssa.MakeClosure:
					target = v.Fn.(*ssa.Function)
				}
				if target == nil || done[target] {
					continue
				}
				done[target] = true
				key := p.funcKey(target)
				fc := p.contracts[key]
				if fc == nil {
					continue // not under contract: reported by the refinement check when the type contract is used
				}
				ok2 := len(target.Params) == len(tc.ParamNames)
				for i := range tc.ParamNames {
					if ok2 && target.Params[i].Name() != tc.ParamNames[i] {
						ok2 = false
					}
				}
				if !ok2 {
					fc.Notes = append(fc.Notes, "parameter names differ from the type contract of "+nt.Obj().Name())
					fc.BadRefine = true
					continue
				}
				fc.FuncType = nt.Obj().Name()
				for _, rq := range tc.Requires {
					c2 := *rq
					fc.Requires = append(fc.Requires, &c2)
				}
				for _, en := range tc.Ensures {
					c2 := *en
					fc.Ensures = append(fc.Ensures, &c2)
					if !strings.Contains(en.Text, "result") {
						c3 := *en
						c3.Kind = "invariant"
						fc.LoopTypeInvs = append(fc.LoopTypeInvs, &c3)
					}
				}
				for pr := range tc.Props {
					_ = pr
				}
			}
		}
	}
}


// resolveAliases: contract blocks may name a function stored in a
// package-level map literal by its key: //@ func cidInit["endcidchar"].
func (p *Program) resolveAliases() {
	alias := map[string]string{}
	for _, fn := range p.funcList {
		if fn.Name() != "init" || fn.Parent() != nil {
			continue
		}
		// map value -> global it is stored to
		stored := map[ssa.Value]*ssa.Global{}
		for _, b := range fn.Blocks {
			for _, in := range b.Instrs {
				if st, ok := in.(*ssa.Store); ok {
					if g, ok := st.Addr.(*ssa.Global); ok {
						stored[st.Val] = g
					}
				}
			}
		}
		for _, b := range fn.Blocks {
			for _, in := range b.Instrs {
				mu, ok := in.(*ssa.MapUpdate)
				if !ok {
					continue
				}
				g := stored[mu.Map]
				if g == nil {
					continue
				}
				var keyStr string
				kv := mu.Key
				if cv, ok := kv.(*ssa.Convert); ok {
					kv = cv.X
				}
				if ct, ok := kv.(*ssa.ChangeType); ok {
					kv = ct.X
				}
				if k, ok := kv.(*ssa.Const); ok && k.Value != nil && k.Value.Kind() == constant.String {
					keyStr = constant.StringVal(k.Value)
				} else {
					continue
				}
				val := mu.Value
				if mi, ok := val.(*ssa.MakeInterface); ok {
					val = mi.X
				}
				if ct, ok := val.(*ssa.ChangeType); ok {
					val = ct.X
				}
				var target *ssa.Function
				switch v := val.(type) {
				case *ssa.Function:
					target = v
				case *ssa.MakeClosure:
					target = v.Fn.(*ssa.Function)
				}
				if target == nil {
					continue
				}
				alias[fmt.Sprintf("%s.%s[%q]", g.Pkg.Pkg.Name(), g.Name(), keyStr)] = p.funcKey(target)
			}
		}
	}
	for k, fc := range p.contracts {
		real, ok := alias[k]
		if !ok {
			if i := strings.Index(k, "]$"); i > 0 {
				if base, ok2 := alias[k[:i+1]]; ok2 {
					real, ok = base+k[i+1:], true
				}
			}
		}
		if ok {
			delete(p.contracts, k)
			fc.Key = real
			if ex := p.contracts[real]; ex != nil {
				ex.Requires = append(ex.Requires, fc.Requires...)
				ex.Ensures = append(ex.Ensures, fc.Ensures...)
				for n, lc := range fc.Loops {
					ex.Loops[n] = lc
				}
				for pr := range fc.Props {
					ex.Props[pr] = true
				}
				ex.Safety = append(ex.Safety, fc.Safety...)
			} else {
				p.contracts[real] = fc
			}
		}
	}
}
