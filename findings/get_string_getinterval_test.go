package postscript

import "testing"

// C02: `get` on a string must yield an integer (PLRM: "string index get
// int"); the operator pushed the Go byte, which no other operator accepts.
func TestReproGetString(t *testing.T) {
	intp := NewInterpreter()
	if err := intp.ExecuteString("(abc) 1 get"); err != nil {
		t.Fatal(err)
	}
	if v, ok := intp.Stack[0].(Integer); !ok || v != 98 {
		t.Errorf("(abc) 1 get -> %v (%T), want Integer 98", intp.Stack[0], intp.Stack[0])
	}
	intp = NewInterpreter()
	if err := intp.ExecuteString("(abc) 1 get 1 add"); err != nil {
		t.Errorf("(abc) 1 get 1 add: %v", err)
	}
}

// C02: getinterval with index == length and count == 0 is inside the PLRM
// domain (the empty sub-interval at the end; also the only legal interval of
// an empty array or string); the operator answered rangecheck.
func TestReproGetintervalEnd(t *testing.T) {
	for _, p := range []string{"[1 2 3] 3 0 getinterval", "() 0 0 getinterval", "0 array 0 0 getinterval"} {
		intp := NewInterpreter()
		if err := intp.ExecuteString(p); err != nil {
			t.Errorf("%s: %v", p, err)
		}
	}
}
