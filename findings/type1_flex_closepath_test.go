package type1

import "testing"

// C06: a flex sequence in the middle of an open sub-path.  The first rmoveto
// of the flex closes the open sub-path (rMoveTo), and othersubr 2 removes only
// the move-to, so a closepath that is not in the charstring appears in front
// of the two flex curves.
func TestReproFlexClosepath(t *testing.T) {
	var b []byte
	num := func(xs ...int32) {
		for _, x := range xs {
			b = appendInt(b, x)
		}
	}
	op := func(o t1op) { b = appendOp(b, o) }
	num(0, 500)
	op(t1hsbw)
	num(100, 100)
	op(t1rmoveto)
	num(50, 0)
	op(t1rlineto)
	num(0, 1)
	op(t1callothersubr) // flex start
	for _, d := range [][2]int32{{50, 0}, {-40, 5}, {20, 5}, {20, 0}, {20, 0}, {20, -5}, {10, -5}} {
		num(d[0], d[1])
		op(t1rmoveto)
		num(0, 2)
		op(t1callothersubr)
	}
	num(50, 300, 100, 3, 0)
	op(t1callothersubr)
	op(t1pop)
	op(t1pop)
	op(t1setcurrentpoint)
	num(0, 50)
	op(t1rlineto)
	op(t1closepath)
	op(t1endchar)

	g, err := (&decodeInfo{}).decodeCharString(b, "x")
	if err != nil {
		t.Fatal(err)
	}
	var ops []GlyphOpType
	for _, c := range g.Cmds {
		ops = append(ops, c.Op)
	}
	want := []GlyphOpType{OpMoveTo, OpLineTo, OpCurveTo, OpCurveTo, OpLineTo, OpClosePath}
	if len(ops) != len(want) {
		t.Fatalf("commands %v, want %v", ops, want)
	}
	for i := range want {
		if ops[i] != want[i] {
			t.Fatalf("commands %v, want %v", ops, want)
		}
	}
}
