package afm

import (
	"testing"

	"seehuhn.de/go/geom/rect"
)

// C17: FontBBoxPDF folds the glyph boxes with rect.Extend in map iteration
// order.  Extend treats an all-zero rectangle as "empty", so for boxes whose
// lower-left corner is not below/left of the upper-right corner (the AFM
// reader accepts any four numbers) the union can pass through the zero
// rectangle and the result depends on the order.
func TestReproFontBBoxOrder(t *testing.T) {
	m := &Metrics{Glyphs: map[string]*GlyphInfo{
		"a": {BBox: rect.Rect{LLx: 1, LLy: 1, URx: 0, URy: 0}},
		"b": {BBox: rect.Rect{LLx: 0, LLy: 0, URx: -1, URy: -1}},
		"c": {BBox: rect.Rect{LLx: 5, LLy: 5, URx: 6, URy: 6}},
	}}
	seen := map[rect.Rect]int{}
	for i := 0; i < 300; i++ {
		seen[m.FontBBoxPDF()]++
	}
	if len(seen) != 1 {
		t.Errorf("FontBBoxPDF of the same metrics gave %d different boxes: %v", len(seen), seen)
	}
}
