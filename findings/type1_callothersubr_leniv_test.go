package type1

import (
	"math"
	"testing"
)

func TestReproCallothersubr(t *testing.T) {
	defer func() {
		if r := recover(); r != nil {
			t.Errorf("PANIC: %v", r)
		}
	}()
	_, err := (&decodeInfo{}).decodeCharString([]byte{139, 139, 12, 16}, "x") // 0 0 callothersubr
	t.Logf("err=%v", err)
}

func TestReproLenIV(t *testing.T) {
	defer func() {
		if r := recover(); r != nil {
			t.Errorf("PANIC: %v", r)
		}
	}()
	res := deobfuscateCharstring(make([]byte, 10), math.MinInt)
	t.Logf("len=%d", len(res))
}
