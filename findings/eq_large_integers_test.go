package postscript

import "testing"

// C02: eq / ne compare two integers through float64, so distinct integers
// above 2^53 that round to the same double compare equal.
func TestReproEqLargeIntegers(t *testing.T) {
	intp := NewInterpreter()
	if err := intp.ExecuteString("9007199254740993 9007199254740992 eq"); err != nil {
		t.Fatal(err)
	}
	if intp.Stack[0] != Boolean(false) {
		t.Errorf("9007199254740993 9007199254740992 eq -> %v, want false", intp.Stack[0])
	}
}
