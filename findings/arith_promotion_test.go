package postscript

import "testing"

func TestReproArith(t *testing.T) {
	for _, p := range []string{"0 -9223372036854775808 sub", "-1 -9223372036854775808 mul", "-9223372036854775808 -1 mul"} {
		intp := NewInterpreter()
		err := intp.ExecuteString(p)
		if err != nil {
			t.Fatal(err)
		}
		if _, isReal := intp.Stack[0].(Real); !isReal {
			t.Errorf("%q -> %v (%T), want Real 9.223372036854775808e18", p, intp.Stack[0], intp.Stack[0])
		}
	}
}
