package postscript

import "testing"

// C02: put into a string with a value outside 0..255 must fail with
// rangecheck (PLRM: "string index int put", int is a character code); the
// operator stored the value modulo 256.
func TestReproPutStringRange(t *testing.T) {
	for _, p := range []string{"(abc) 0 256 put", "(abc) 0 -1 put"} {
		intp := NewInterpreter()
		err := intp.ExecuteString(p)
		if pe, ok := err.(*postScriptError); !ok || pe.tp != eRangecheck {
			t.Errorf("%s: error %v, want rangecheck", p, err)
		}
	}
}
