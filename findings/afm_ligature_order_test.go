package afm

import (
	"bytes"
	"testing"
)

// C17: Metrics.Write emits the ligatures of a glyph in Go map iteration
// order, so writing the same metrics twice gives different bytes.
func TestReproLigatureOrder(t *testing.T) {
	m := &Metrics{
		Glyphs: map[string]*GlyphInfo{
			"f": {WidthX: 300, Ligatures: map[string]string{"f": "ff", "i": "fi", "l": "fl", "t": "ft", "j": "fj", "b": "fb"}},
		},
		Encoding: make([]string, 256),
		FontName: "Test",
	}
	for i := range m.Encoding {
		m.Encoding[i] = ".notdef"
	}
	seen := map[string]bool{}
	for i := 0; i < 100; i++ {
		buf := &bytes.Buffer{}
		if err := m.Write(buf); err != nil {
			t.Fatal(err)
		}
		seen[buf.String()] = true
	}
	if len(seen) != 1 {
		t.Errorf("writing the same metrics 100 times gave %d different outputs", len(seen))
	}
}
