package type1

import (
	"math"
	"testing"
)

// C20: the hvcurveto / vhcurveto shortcuts are taken when the end point's
// coordinate is within 1e-6 of the second control point's; the decoder then
// reconstructs the end point from the control point, so the end point can be
// off by up to 1/214 + 1e-6 (the property says at most 1/214).
func TestReproHVCurveTolerance(t *testing.T) {
	x2 := 1.0/214 - 5e-7
	g := &Glyph{Cmds: []GlyphOp{
		{Op: OpMoveTo, Args: []float64{0, 0}},
		{Op: OpCurveTo, Args: []float64{10, 0, x2 + 10, 5, x2 + 10 + 9e-7, 20}},
	}}
	buf := g.encodeCharString(500, 0)
	g2, err := (&decodeInfo{}).decodeCharString(buf, "x")
	if err != nil {
		t.Fatal(err)
	}
	want := g.Cmds[1].Args[4]
	got := g2.Cmds[1].Args[4]
	if d := math.Abs(got - want); d > 1.0/214 {
		t.Errorf("end point x: wrote %.9f, read %.9f, off by %.9f > 1/214 = %.9f", want, got, d, 1.0/214)
	}
}
