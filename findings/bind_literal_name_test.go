package postscript

import "testing"

// C03: bind replaces executable operator names by their values (PLRM 8.2);
// literal names stay names.  bindProc also replaced literal names that
// resolve to a built-in operator, so "{ /add } bind exec" executed add.
func TestReproBindLiteralName(t *testing.T) {
	intp := NewInterpreter()
	if err := intp.ExecuteString("{ /add } bind exec"); err != nil {
		t.Fatalf("{ /add } bind exec: %v", err)
	}
	if len(intp.Stack) != 1 || intp.Stack[0] != Name("add") {
		t.Errorf("{ /add } bind exec -> %v, want [/add]", intp.Stack)
	}
}
