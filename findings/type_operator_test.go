package postscript

import "testing"

// C02: "any type name" replaces its operand by the type name (PLRM 8.2); the
// operator left the operand on the stack below the name.
func TestReproTypeOperator(t *testing.T) {
	intp := NewInterpreter()
	if err := intp.ExecuteString("1 type"); err != nil {
		t.Fatal(err)
	}
	if len(intp.Stack) != 1 || intp.Stack[0] != Name("integertype") {
		t.Errorf("1 type -> %v, want [integertype]", intp.Stack)
	}
}
