package postscript

import (
	"fmt"
	"testing"
)

func zzEexecHex(plain string) string {
	r := uint16(55665)
	out := ""
	for _, p := range []byte("XXXX" + plain) {
		c := p ^ byte(r>>8)
		r = (uint16(c)+r)*52845 + 22719
		out += fmt.Sprintf("%02x", c)
	}
	return out
}

func TestRepro(t *testing.T) {
	defer func() {
		if r := recover(); r != nil {
			t.Errorf("PANIC: %v", r)
		}
	}()
	intp := NewInterpreter()
	intp.MaxOps = 10000
	prog := "1 2 3 { { currentfile eexec pop } exec pop } exec " + zzEexecHex(" { ")
	err := intp.ExecuteString(prog)
	t.Logf("first call: err=%v stack=%v procStart=%v", err, intp.Stack, intp.procStart)
	err = intp.ExecuteString("}")
	t.Logf("second call: err=%v stack=%v", err, intp.Stack)
}
