package type1

import (
	"bytes"
	"testing"

	"seehuhn.de/go/geom/matrix"
	"seehuhn.de/go/postscript/psenc"
)

// C08: an encoding that agrees with StandardEncoding except for .notdef at a
// code whose standard glyph exists in the font was written as
// "/Encoding StandardEncoding def"; every reader then maps that code to the
// glyph, so the written file does not describe the font's encoding.
func TestReproStandardEncodingShortcut(t *testing.T) {
	enc := makeEmptyEncoding()
	enc[psenc.StandardEncodingRev["B"]] = "B" // code of A stays .notdef although glyph A exists
	F := &Font{
		FontInfo: &FontInfo{FontName: "Test", FontMatrix: matrix.Matrix{0.001, 0, 0, 0.001, 0, 0}},
		Private:  &PrivateDict{BlueScale: 0.039625, BlueShift: 7, BlueFuzz: 1},
		Glyphs:   map[string]*Glyph{},
		Encoding: enc,
	}
	for _, name := range []string{".notdef", "A", "B"} {
		g := F.NewGlyph(name, 100)
		g.MoveTo(10, 10)
		g.LineTo(20, 10)
		g.ClosePath()
	}
	buf := &bytes.Buffer{}
	if err := F.Write(buf, nil); err != nil {
		t.Fatal(err)
	}
	G, err := Read(bytes.NewReader(buf.Bytes()))
	if err != nil {
		t.Fatal(err)
	}
	code := psenc.StandardEncodingRev["A"]
	if G.Encoding[code] != F.Encoding[code] {
		t.Errorf("code %d: wrote %q, a reader sees %q", code, F.Encoding[code], G.Encoding[code])
	}
}
