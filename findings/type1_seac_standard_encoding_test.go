package type1

import (
	"bytes"
	"fmt"
	"testing"

	"seehuhn.de/go/geom/matrix"
	"seehuhn.de/go/postscript/psenc"
)

// C06: the operands bchar and achar of seac are character codes of the
// StandardEncoding vector (Type 1 book 6.4), whatever the font's own
// encoding says.  The reader looked them up in the font's Encoding array, so
// a font with a custom encoding got the wrong base and accent glyphs; and it
// dropped the closepath commands of the accent.
func TestReproSeacStandardEncoding(t *testing.T) {
	enc := makeEmptyEncoding()
	// custom encoding: the standard codes of A and acute name other glyphs
	enc[psenc.StandardEncodingRev["A"]] = "acute"
	enc[psenc.StandardEncodingRev["acute"]] = "A"
	F := &Font{
		FontInfo: &FontInfo{FontName: "Test", FontMatrix: matrix.Matrix{0.001, 0, 0, 0.001, 0, 0}},
		Private:  &PrivateDict{BlueScale: 0.039625, BlueShift: 7, BlueFuzz: 1},
		Glyphs:   map[string]*Glyph{},
		Encoding: enc,
	}
	for name, w := range map[string]float64{".notdef": 100, "A": 600, "acute": 300, "Aacute": 111} {
		g := F.NewGlyph(name, w)
		g.MoveTo(10, 10)
		g.LineTo(20, 10)
		g.LineTo(20, 20)
		g.ClosePath()
	}
	buf := &bytes.Buffer{}
	if err := F.Write(buf, &WriterOptions{Format: FormatNoEExec}); err != nil {
		t.Fatal(err)
	}

	// replace the charstring of Aacute by "0 111 hsbw 0 100 200 bchar achar seac"
	var plain []byte
	plain = appendInt(plain, 0)
	plain = appendInt(plain, 111)
	plain = appendOp(plain, t1hsbw)
	plain = appendInt(plain, 0)
	plain = appendInt(plain, 100)
	plain = appendInt(plain, 200)
	plain = appendInt(plain, int32(psenc.StandardEncodingRev["A"]))
	plain = appendInt(plain, int32(psenc.StandardEncodingRev["acute"]))
	plain = appendOp(plain, t1seac)
	cs := obfuscateCharstring(plain, []byte{0, 0, 0, 0})

	data := buf.Bytes()
	start := bytes.Index(data, []byte("/Aacute "))
	if start < 0 {
		t.Fatal("no /Aacute in the written font")
	}
	var n int
	var rd string
	if _, err := fmt.Sscanf(string(data[start:]), "/Aacute %d %s ", &n, &rd); err != nil {
		t.Fatal(err)
	}
	head := fmt.Sprintf("/Aacute %d %s ", n, rd)
	end := start + len(head) + n
	patched := append([]byte{}, data[:start]...)
	patched = append(patched, []byte(fmt.Sprintf("/Aacute %d %s ", len(cs), rd))...)
	patched = append(patched, cs...)
	patched = append(patched, data[end:]...)

	G, err := Read(bytes.NewReader(patched))
	if err != nil {
		t.Fatal(err)
	}
	g := G.Glyphs["Aacute"]
	if g == nil {
		t.Fatal("no glyph Aacute")
	}
	if g.WidthX != 600 {
		t.Errorf("Aacute: width %v, want the width 600 of its base glyph A", g.WidthX)
	}
	closes := 0
	for _, c := range g.Cmds {
		if c.Op == OpClosePath {
			closes++
		}
	}
	if closes != 2 {
		t.Errorf("Aacute: %d closepath commands, want 2 (base and accent)", closes)
	}
}
