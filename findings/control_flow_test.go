package postscript

import (
	"fmt"
	"testing"
)

func TestReproControl(t *testing.T) {
	for _, c := range []struct{ prog, want string }{
		{"3 { 1 exit } repeat", "[1] <nil>"},
		{"{ {1 2} } exec count", "[{1 2} 1] <nil>"},
		{"1 { {7} } repeat", "[{7}] <nil>"},
	} {
		intp := NewInterpreter()
		err := intp.ExecuteString(c.prog)
		got := fmt.Sprintf("%v %v", intp.Stack, err)
		if got != c.want {
			t.Errorf("%q: got %s, want %s", c.prog, got, c.want)
		}
	}
}
