package postscript

import "testing"

// C03: "initial increment limit proc for" runs proc while the control variable
// has not passed the limit.  The control variable was advanced with wrapping
// int64 addition: when initial+k*increment leaves the integer range the
// variable wrapped to the other end of the range and the loop ran on until
// the operation budget was exhausted.
func TestReproForOverflow(t *testing.T) {
	intp := NewInterpreter()
	intp.MaxOps = 100000
	err := intp.ExecuteString("9223372036854775806 2 9223372036854775807 { } for")
	if err != nil {
		t.Fatalf("for: %v", err)
	}
	if len(intp.Stack) != 1 || intp.Stack[0] != Integer(9223372036854775806) {
		t.Errorf("got %d operands %v, want [9223372036854775806]", len(intp.Stack), intp.Stack)
	}
	intp = NewInterpreter()
	intp.MaxOps = 100000
	err = intp.ExecuteString("-9223372036854775807 -2 -9223372036854775808 { } for")
	if err != nil {
		t.Fatalf("descending for: %v", err)
	}
	if len(intp.Stack) != 1 || intp.Stack[0] != Integer(-9223372036854775807) {
		t.Errorf("descending: got %d operands, want 1", len(intp.Stack))
	}
}
